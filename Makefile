# Builds the check binaries against the *current* working tree of the repository under test.
# VERIF_REPO (default /repo) selects the tree; dependency files track every hep-mc header, so a
# changed tree is rebuilt and an unchanged one is not.
REPO    ?= $(if $(VERIF_REPO),$(VERIF_REPO),/repo)
CXX     ?= g++
BASEFLAGS = -std=c++17 -g0 -Wall -Wno-unused-variable -Wno-unused-but-set-variable \
            -I$(REPO)/include -Iharness -MMD -MP -DHEP_MC_VERIF
OPT     ?= -O1
B       = $(if $(VERIF_BUILD),$(VERIF_BUILD),build)

CHECKS  = c01 c02 c03 c04 c05 c06 c07 c08 c09 c10 c11 c12 c13 c14 c15 c16 c17 c18 c19 c20

# per-binary extra flags
FLAGS_c16 = -O2 -Iharness/mpishim
FLAGS_c14 = -O2 -lquadmath
FLAGS_c11 = -lquadmath -Iharness/mpishim
FLAGS_c18 = -ldl -Iharness/mpishim
FLAGS_c05 = -O2
FLAGS_c04 = -Iharness/mpishim
FLAGS_c01 = -Iharness/mpishim
FLAGS_c10 = -Iharness/mpishim
FLAGS_c07 = -Iharness/mpishim
FLAGS_c08 = -Iharness/mpishim
FLAGS_c19 = -Iharness/mpishim
FLAGS_c12 = -Iharness/mpishim
FLAGS_c20 = -Iharness/mpishim -fsanitize=address,undefined -fno-sanitize-recover=undefined -D_GLIBCXX_ASSERTIONS
FLAGS_c15 = -D_GLIBCXX_ASSERTIONS
FLAGS_c17 = -fsanitize=address,undefined -fno-sanitize-recover=undefined -D_GLIBCXX_ASSERTIONS

# checks built in parts: name:count
PARTED  = c01:3 c02:3 c03:9 c04:6 c05:3 c06:3 c10:3 c11:3 c12:3 c15:9 c17:3 c19:3 c20:3
PARTED_NAMES = $(foreach p,$(PARTED),$(firstword $(subst :, ,$(p))))
parts_of = $(shell seq 0 $$(( $(word 2,$(subst :, ,$(1))) - 1 )))
EXISTING = $(foreach c,$(filter-out $(PARTED_NAMES),$(CHECKS)),$(if $(wildcard checks/$(c).cpp),$(B)/$(c))) \
           $(foreach p,$(PARTED),$(if $(wildcard checks/$(firstword $(subst :, ,$(p))).cpp),$(foreach k,$(call parts_of,$(p)),$(B)/$(firstword $(subst :, ,$(p))).p$(k))))

all: $(EXISTING)

$(B)/%: checks/%.cpp | $(B)
	$(CXX) $(BASEFLAGS) $(OPT) $(FLAGS_$*) -MF $(B)/$*.d -MT $@ -o $@ $< $(LIBS_$*)

# checks split into parts (compiled with -DVF_PART=k) so that the parts build in parallel
define PART_RULE
$$(B)/%.p$(1): checks/%.cpp | $$(B)
	$$(CXX) $$(BASEFLAGS) $$(OPT) $$(FLAGS_$$*) -DVF_PART=$(1) -MF $$(B)/$$*.p$(1).d -MT $$@ -o $$@ $$< $$(LIBS_$$*)
endef
$(foreach k,0 1 2 3 4 5 6 7 8 9 10 11,$(eval $(call PART_RULE,$(k))))

$(B):
	mkdir -p $(B) $(B)/out

clean:
	rm -rf $(B)

.PHONY: all clean

-include $(wildcard $(B)/*.d)
