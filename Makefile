# Builds the check binaries against the *current* working tree of the repository under test.
# VERIF_REPO (default /repo) selects the tree; dependency files track every hep-mc header, so a
# changed tree is rebuilt and an unchanged one is not.
REPO    ?= $(if $(VERIF_REPO),$(VERIF_REPO),/repo)
CXX     ?= g++
BASEFLAGS = -std=c++17 -g0 -Wall -Wno-unused-variable -Wno-unused-but-set-variable \
            -I$(REPO)/include -Iharness -MMD -MP -DHEP_MC_VERIF
OPT     ?= -O1
B       = build

CHECKS  = c01 c02 c03 c04 c05 c06 c07 c08 c09 c10 c11 c12 c13 c14 c15 c16 c17 c18 c19 c20

# per-binary extra flags
FLAGS_c16 = -O2 -Iharness/mpishim
FLAGS_c14 = -O2 -lquadmath
FLAGS_c11 = -lquadmath
FLAGS_c05 = -O2
FLAGS_c04 = -Iharness/mpishim
FLAGS_c19 = -Iharness/mpishim
FLAGS_c12 = -Iharness/mpishim
FLAGS_c20 = -Iharness/mpishim -fsanitize=address,undefined -fno-sanitize-recover=undefined -D_GLIBCXX_ASSERTIONS
FLAGS_c15 = -fsanitize=address,undefined -fno-sanitize-recover=undefined -D_GLIBCXX_ASSERTIONS
FLAGS_c17 = -fsanitize=address,undefined -fno-sanitize-recover=undefined -D_GLIBCXX_ASSERTIONS

# checks built as three parts
PARTED  = c02 c05 c06 c10 c11
EXISTING = $(foreach c,$(filter-out $(PARTED),$(CHECKS)),$(if $(wildcard checks/$(c).cpp),$(B)/$(c))) \
           $(foreach c,$(PARTED),$(if $(wildcard checks/$(c).cpp),$(B)/$(c).p0 $(B)/$(c).p1 $(B)/$(c).p2))

all: $(EXISTING)

$(B)/%: checks/%.cpp | $(B)
	$(CXX) $(BASEFLAGS) $(OPT) $(FLAGS_$*) -MF $(B)/$*.d -MT $@ -o $@ $< $(LIBS_$*)

# checks split into parts (one numeric type each) so that they compile in parallel
$(B)/%.p0: checks/%.cpp | $(B)
	$(CXX) $(BASEFLAGS) $(OPT) $(FLAGS_$*) -DVF_PART=0 -MF $(B)/$*.p0.d -MT $@ -o $@ $< $(LIBS_$*)
$(B)/%.p1: checks/%.cpp | $(B)
	$(CXX) $(BASEFLAGS) $(OPT) $(FLAGS_$*) -DVF_PART=1 -MF $(B)/$*.p1.d -MT $@ -o $@ $< $(LIBS_$*)
$(B)/%.p2: checks/%.cpp | $(B)
	$(CXX) $(BASEFLAGS) $(OPT) $(FLAGS_$*) -DVF_PART=2 -MF $(B)/$*.p2.d -MT $@ -o $@ $< $(LIBS_$*)

$(B):
	mkdir -p $(B) $(B)/out

clean:
	rm -rf $(B)

.PHONY: all clean

-include $(wildcard $(B)/*.d)
