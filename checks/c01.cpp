// C01 — sampling weights make every integrator an unbiased estimator.
// A midpoint-lattice engine turns one iteration into an exhaustive sweep of the discretised unit cube
// (and of the channel choice), so "f x weight averaged over the cube equals the integral" becomes an
// exact, noise-free equality for every integrand the midpoint rule integrates exactly.  Enumerated:
// PLAIN; VEGAS over uniform grids, every strictly increasing eighth-lattice grid and grids reached
// by real adaptation; MULTI-CHANNEL over every composition of 8 into channel weights (with zeros,
// unnormalised, sentinel densities in disabled channels), jacobian factors, and adapted weights.
#include "common.hpp"
#include "engines.hpp"
#include "mcmodel.hpp"
#include "mpienv.hpp"

#include "hep/mc.hpp"
#include "hep/mc-mpi.hpp"

#include <cmath>
#include <deque>
#include <set>

using vf::report;
typedef std::size_t sz;
typedef long double L;

// multilinear integrand prod_k (c_k + s_k y_k); also checks the weight it is handed
template <typename T>
struct lin
{
    std::vector<std::pair<int, int>> cs;
    hep::vegas_pdf<T> const* pdf = nullptr;
    bool reads_weight = false;     // multi-channel: the integrand looks at point.weight() itself (twice) before returning
    static std::string& complaint() { static std::string s; return s; }

    bool cut = false;              // multiplied by the indicator of y_0 < 1/2 (exactly zero on the other half)

    T f(std::vector<T> const& y) const
    {
        if (cut && !(y[0] < T(0.5))) return T();
        T v = T(1);
        for (sz k = 0; k != cs.size(); ++k) v *= T(cs[k].first) + T(cs[k].second) * y[k];
        return v;
    }
    T operator()(hep::mc_point<T> const& p) const
    {
        if (p.weight() != T(1) && complaint().empty()) complaint() = "PLAIN point with weight " + vf::dec(p.weight());
        return f(p.point());
    }
    T operator()(hep::vegas_point<T> const& p) const
    {
        if (pdf)
        {
            L w = 1;
            for (sz k = 0; k != p.point().size(); ++k)
            {
                sz const b = p.bin()[k];
                if (b >= pdf->bins()) { if (complaint().empty()) complaint() = "bin index " + std::to_string(b) + " out of range"; return f(p.point()); }
                L const lo = pdf->bin_left(k, b), hi = pdf->bin_left(k, b + 1);
                if (!(p.point()[k] >= lo && p.point()[k] <= hi) && complaint().empty())
                    complaint() = "point " + vf::dec(p.point()[k]) + " outside its bin [" + vf::dec(lo) + "," + vf::dec(hi) + "]";
                w *= pdf->bins() * (hi - lo);
            }
            if (!(std::fabs(L(p.weight()) - w) <= 8 * std::numeric_limits<T>::epsilon() * w) && complaint().empty())
                complaint() = "weight " + vf::dec(p.weight()) + " but bins x width = " + vf::dec(w);
        }
        return f(p.point());
    }
    // the same integrands created with a distribution (another accumulator inside the library)
    T operator()(hep::mc_point<T> const& p, hep::projector<T>& proj) const { T const v = (*this)(p); proj.add(0, p.point()[0], v); return v; }
    T operator()(hep::vegas_point<T> const& p, hep::projector<T>& proj) const { T const v = (*this)(p); proj.add(0, p.point()[0], v); return v; }
    T operator()(hep::multi_channel_point<T> const& p, hep::projector<T>& proj) const { T const v = (*this)(p); proj.add(0, p.coordinates()[0], v); return v; }
    T operator()(hep::multi_channel_point<T> const& p) const
    {
        if (reads_weight)
        {
            T const w1 = p.weight(), w2 = p.weight();
            if (!vf::same_bits(w1, w2) && complaint().empty()) complaint() = "point.weight() returned " + vf::dec(w1) + " and then " + vf::dec(w2) + " for the same point";
        }
        return f(p.coordinates());
    }
};

template <typename T>
static L exact_integral(std::vector<std::pair<int, int>> const& cs)
{
    L v = 1;
    for (auto const& c : cs) v *= c.first + c.second / 2.0L;
    return v;
}

template <typename T>
static L magnitude(std::vector<std::pair<int, int>> const& cs)
{
    L v = 1;
    for (auto const& c : cs) v *= std::abs(c.first) + std::abs(c.second);
    return v;
}

static std::vector<std::vector<std::pair<int, int>>> integrands(sz d)
{
    std::vector<std::pair<int, int>> const base = {{1, 0}, {0, 1}, {2, -3}, {-1, 4}};
    std::vector<std::vector<std::pair<int, int>>> out;
    std::vector<sz> idx(d, 0);
    for (;;)
    {
        std::vector<std::pair<int, int>> cs;
        for (sz k = 0; k != d; ++k) cs.push_back(base[idx[k]]);
        out.push_back(cs);
        sz k = 0;
        while (k != d && ++idx[k] == base.size()) { idx[k] = 0; ++k; }
        if (k == d) break;
    }
    return out;
}

static std::string show(std::vector<std::pair<int, int>> const& cs)
{
    std::string s;
    for (auto const& c : cs) s += "(" + std::to_string(c.first) + (c.second < 0 ? "" : "+") + std::to_string(c.second) + "y)";
    return s;
}

// ---- PLAIN -------------------------------------------------------------------------------------------

template <typename T>
static void plain_cases(report& r)
{
    std::string const tn = vf::type_name<T>();
    for (sz d = 1; d <= 3; ++d)
    for (sz m : {sz(1), sz(2), sz(4), sz(6)})
    for (auto const& cs : integrands(d))
    {
        std::string const id = tn + " plain d=" + std::to_string(d) + " m=" + std::to_string(m) + " f=" + show(cs);
        if (!r.want(id)) continue;
        r.eval();
        sz const n = vf::fill_lattice(std::vector<sz>(d, m));
        vf::script_engine gen;
        lin<T>::complaint().clear();
        auto const res = hep::plain_iteration(hep::make_integrand<T>(lin<T>{cs}, d), n, gen);
        L const want = exact_integral<T>(cs);
        L const tol = 64 * (d + 1) * std::numeric_limits<T>::epsilon() * magnitude<T>(cs);
        if (!(std::fabs(L(res.value()) - want) <= tol))
            r.violate("biased/plain", id, id + ": lattice estimate " + vf::dec(L(res.value())) + ", integral " + vf::dec(want));
        if (!lin<T>::complaint().empty()) r.violate("weight-seen-by-integrand", id, id + ": " + lin<T>::complaint());
        r.distinct(vf::hash_str(id));
    }
}

// ---- integrands with a cut and/or distributions ---------------------------------------------------------
// f x indicator(y_0 < 1/2) is integrated exactly by a midpoint lattice that has 1/2 on a cell boundary in the space
// of the random numbers; creating the integrand with a distribution selects the library's other accumulator.
template <typename T>
static void cut_dist_cases(report& r)
{
    std::string const tn = vf::type_name<T>();
    auto dp = hep::make_dist_params<T>(4, T(0), T(1), "d");
    for (int variant = 1; variant != 4; ++variant)     // bit 0: with a distribution, bit 1: with the cut
    for (int kind = 0; kind != 6; ++kind)               // 0 PLAIN, 1 VEGAS uniform 4 bins, 2 VEGAS grid [0,1/8,1/2,1], 3..5 multi-channel with 1..3 channels
    for (sz d = 1; d <= 2; ++d)
    for (auto const& cs : integrands(d))
    {
        bool const dist = variant & 1, cut = variant & 2;
        std::string const id = tn + " plain-cut kind=" + std::to_string(kind) + " d=" + std::to_string(d) + (dist ? " dist" : "") + (cut ? " cut" : "") + " f=" + show(cs);
        if (!r.want(id)) continue;
        r.eval();
        lin<T> fn{cs}; fn.cut = cut;
        lin<T>::complaint().clear();
        vf::script_engine gen;
        L got = 0;
        if (kind == 0)
        {
            sz const n = vf::fill_lattice(std::vector<sz>(d, 6));
            got = dist ? hep::plain_iteration(hep::make_integrand<T>(fn, d, dp), n, gen).value() : hep::plain_iteration(hep::make_integrand<T>(fn, d), n, gen).value();
        }
        else if (kind <= 2)
        {
            sz const b = kind == 1 ? 4 : 3;
            hep::vegas_pdf<T> pdf(d, b);
            if (kind == 2) for (sz k = 0; k != d; ++k) { pdf.set_bin_left(k, 1, T(0.125)); pdf.set_bin_left(k, 2, T(0.5)); }
            sz const n = vf::fill_lattice(std::vector<sz>(d, b * 3));
            got = dist ? hep::vegas_iteration(hep::make_integrand<T>(fn, d, dp), n, pdf, gen).value() : hep::vegas_iteration(hep::make_integrand<T>(fn, d), n, pdf, gen).value();
        }
        else
        {
            sz const c = kind - 2;
            vf::pl_map<T> map;
            map.split = c == 1 ? std::vector<T>{T(0.5)} : c == 2 ? std::vector<T>{T(0.25), T(0.75)} : std::vector<T>{T(0.25), T(0.5), T(0.75)};
            map.dims = d;
            std::vector<T> const w = c == 1 ? std::vector<T>{T(1)} : c == 2 ? std::vector<T>{T(0.375), T(0.625)} : std::vector<T>{T(0.25), T(0.125), T(0.625)};
            std::vector<sz> lat(d, 12);
            lat.push_back(8);
            sz const n = vf::fill_lattice(lat);
            got = dist ? hep::multi_channel_iteration(hep::make_multi_channel_integrand<T>(fn, d, map, d, c, dp), n, w, gen).value()
                       : hep::multi_channel_iteration(hep::make_multi_channel_integrand<T>(fn, d, map, d, c), n, w, gen).value();
        }
        // the first factor is integrated over [0, 1/2) when the cut is on
        L want = cut ? cs[0].first / 2.0L + cs[0].second / 8.0L : cs[0].first + cs[0].second / 2.0L;
        for (sz k = 1; k != cs.size(); ++k) want *= cs[k].first + cs[k].second / 2.0L;
        L const tol = 64 * (d + 8) * std::numeric_limits<T>::epsilon() * magnitude<T>(cs) * 4;
        if (!(std::fabs(got - want) <= tol))
            r.violate(kind == 0 ? "biased/plain" : kind <= 2 ? "biased/vegas" : "biased/multi_channel", id, id + ": lattice estimate " + vf::dec(got) + ", integral " + vf::dec(want));
        if (!lin<T>::complaint().empty() && kind != 2) r.violate("weight-seen-by-integrand", id, id + ": " + lin<T>::complaint());
        r.distinct(vf::hash_str(id));
    }
}

// ---- the MPI integrators ----------------------------------------------------------------------------------
// The same lattice shared out over P ranks (P does not divide the number of points): the reduced result of
// every rank is the exact integral.
template <typename T>
static void mpi_cases(report& r)
{
    std::string const tn = vf::type_name<T>();
    for (int kind = 0; kind != 3; ++kind)       // mpi_plain, mpi_vegas (grid [0,1/8,1/2,1]), mpi_multi_channel (3 channels)
    for (int world : {2, 3, 5})
    for (auto const& cs : integrands(1))
    {
        std::string const id = tn + " plain-mpi kind=" + std::to_string(kind) + " world=" + std::to_string(world) + " f=" + show(cs);
        if (!r.want(id)) continue;
        r.eval();
        lin<T> fn{cs};
        lin<T>::complaint().clear();
        vf::pl_map<T> map; map.split = {T(0.25), T(0.5), T(0.75)}; map.dims = 1;
        hep::vegas_pdf<T> pdf(1, 3);
        pdf.set_bin_left(0, 1, T(0.125)); pdf.set_bin_left(0, 2, T(0.5));
        // 2 iterations of one full lattice each (mpi_vegas adapts after the first: only the first is judged for it)
        sz const n = kind == 2 ? vf::fill_lattice({12, 8}) : vf::fill_lattice({kind == 1 ? sz(21) : sz(14)});
        std::vector<L> got(world, 0);
        vf::mpi_env env(world);
        auto out = env.run([&](int rank) {
            vf::script_engine gen;
            if (kind == 0) got[rank] = hep::mpi_plain(MPI_COMM_WORLD, hep::make_integrand<T>(fn, 1), std::vector<sz>{n}, hep::make_plain_chkpt<T, vf::script_engine>(gen), vf::never_stop_mpi()).results().at(0).value();
            else if (kind == 1) got[rank] = hep::mpi_vegas(MPI_COMM_WORLD, hep::make_integrand<T>(fn, 1), std::vector<sz>{n}, hep::make_vegas_chkpt<T, vf::script_engine>(pdf, T(0.75), gen), vf::never_stop_mpi()).results().at(0).value();
            else got[rank] = hep::mpi_multi_channel(MPI_COMM_WORLD, hep::make_multi_channel_integrand<T>(fn, 1, map, 1, 3), std::vector<sz>{n},
                hep::make_multi_channel_chkpt<T, vf::script_engine>(std::vector<T>{T(2), T(1), T(5)}, T(), T(0.5), gen), vf::never_stop_mpi()).results().at(0).value();
        });
        if (!out.ok) { r.violate("mpi-run-failed", id, id + ": " + out.what); continue; }
        L const want = exact_integral<T>(cs);
        L const tol = 64 * 12 * std::numeric_limits<T>::epsilon() * magnitude<T>(cs) * 4;
        for (int k = 0; k != world; ++k)
            if (!(std::fabs(got[k] - want) <= tol))
            {
                r.violate(kind == 0 ? "biased/plain" : kind == 1 ? "biased/vegas" : "biased/multi_channel", id, id + ": rank " + std::to_string(k) + " reports the lattice estimate " + vf::dec(got[k])
                    + ", integral " + vf::dec(want));
                break;
            }
        r.distinct(vf::hash_str(id));
    }
}

// ---- VEGAS -------------------------------------------------------------------------------------------

template <typename T>
static std::string grid_str(std::vector<T> const& x) { return vf::join_dec(x); }

template <typename T>
static void vegas_one(report& r, std::string const& id, std::vector<std::vector<T>> const& grids, sz s,
    std::vector<std::pair<int, int>> const& cs, bool through_vegas)
{
    sz const d = grids.size(), b = grids[0].size() - 1;
    hep::vegas_pdf<T> pdf(d, b);
    for (sz k = 0; k != d; ++k) for (sz i = 0; i <= b; ++i) pdf.set_bin_left(k, i, grids[k][i]);
    sz const n = vf::fill_lattice(std::vector<sz>(d, b * s));
    vf::script_engine gen;
    lin<T>::complaint().clear();
    r.eval();
    L got;
    if (!through_vegas)
    {
        auto const res = hep::vegas_iteration(hep::make_integrand<T>(lin<T>{cs, &pdf}, d), n, pdf, gen);
        got = res.value();
    }
    else
    {
        auto chk = hep::make_vegas_chkpt<T, vf::script_engine>(pdf, T(1.5), gen);
        chk = hep::vegas(hep::make_integrand<T>(lin<T>{cs, &pdf}, d), std::vector<sz>{n}, chk, vf::never_stop());
        got = chk.results().at(0).value();
    }
    L const want = exact_integral<T>(cs);
    L const tol = 64 * (d + b) * std::numeric_limits<T>::epsilon() * magnitude<T>(cs);
    if (!(std::fabs(got - want) <= tol))
    {
        std::string g;
        for (auto const& x : grids) g += "[" + grid_str(x) + "]";
        r.violate("biased/vegas", id, id + ": grid " + g + " lattice " + std::to_string(b * s) + "^" + std::to_string(d) + " estimate " + vf::dec(got) + ", integral " + vf::dec(want)
            + " (tolerance " + vf::dec(tol) + ")");
    }
    if (!lin<T>::complaint().empty()) r.violate("weight-seen-by-integrand", id, id + ": " + lin<T>::complaint());
}

template <typename T>
struct adapt_fn
{
    int kind;
    T operator()(hep::vegas_point<T> const& p) const
    {
        T v = T(1);
        for (T y : p.point())
        {
            switch (kind)
            {
            case 0: v *= T(1) / (T(0.01L) + y); break;                 // peak on the left
            case 1: v *= T(1) / (T(1.01L) - y); break;                 // peak on the right
            case 2: v *= T(1) / (T(0.001L) + (y - T(0.6L)) * (y - T(0.6L))); break;   // ridge
            default: v *= y < T(0.5) ? T() : T(2); break;              // half zero
            }
        }
        return v;
    }
};

// grids reached by real adaptation: BFS over histories of (integrand) choices with a fixed alpha
template <typename T>
static std::vector<std::vector<T>> adapted_grids(report& r, sz b, int depth)
{
    std::set<std::vector<T>> seen;
    std::vector<std::vector<T>> out;
    for (T alpha : {T(0), T(0.5), T(1.5), T(3)})
    {
        std::deque<std::pair<hep::vegas_pdf<T>, int>> frontier;
        frontier.push_back({hep::vegas_pdf<T>(1, b), 0});
        while (!frontier.empty())
        {
            auto cur = frontier.front(); frontier.pop_front();
            if (cur.second == depth) continue;
            for (int kind = 0; kind != 4; ++kind)
            {
                vf::fill_lattice({b * 4});
                vf::script_engine gen;
                auto const res = hep::vegas_iteration(hep::make_integrand<T>(adapt_fn<T>{kind}, 1), b * 4, cur.first, gen);
                auto const np = hep::vegas_refine_pdf(cur.first, alpha, res.adjustment_data());
                r.transition();
                std::vector<T> x(b + 1);
                bool valid = true;
                for (sz i = 0; i <= b; ++i) { x[i] = np.bin_left(0, i); valid &= std::isfinite(x[i]); }
                if (!valid) continue;
                if (seen.insert(x).second) { out.push_back(x); r.state(); frontier.push_back({np, cur.second + 1}); }
            }
        }
    }
    return out;
}

template <typename T>
static void vegas_cases(report& r, bool thorough)
{
    std::string const tn = vf::type_name<T>();
    for (sz b : {sz(2), sz(3), sz(4), sz(5), sz(8)})
    {
        std::string const base = tn + " vegas B=" + std::to_string(b);
        if (!r.want_prefix(base.substr(0, std::min(base.size(), r.a().replay_case.size())))) continue;
        std::vector<std::vector<T>> grids;
        {
            std::vector<T> u(b + 1);
            for (sz i = 0; i <= b; ++i) u[i] = T(i) / T(b);
            grids.push_back(u);
        }
        if (b <= 4)
        {
            std::vector<sz> cut(b - 1);
            std::function<void(sz, sz)> rec = [&](sz pos, sz from) {
                if (pos == b - 1)
                {
                    std::vector<T> x = {T(0)};
                    for (sz c : cut) x.push_back(T(c) / T(8));
                    x.push_back(T(1));
                    grids.push_back(x);
                    return;
                }
                for (sz c = from; c <= 7; ++c) { cut[pos] = c; rec(pos + 1, c + 1); }
            };
            rec(0, 1);
        }
        sz const fixed = grids.size();
        auto const adapted = adapted_grids<T>(r, b, thorough ? 5 : 3);
        grids.insert(grids.end(), adapted.begin(), adapted.end());
        r.count("grids_reached_by_adaptation", adapted.size());

        // d = 1: every grid
        for (sz gi = 0; gi != grids.size(); ++gi)
        for (sz s : {sz(1), sz(2), sz(3)})
        for (auto const& cs : integrands(1))
        for (int thr = 0; thr != 2; ++thr)
        {
            if (thr == 1 && (s != 2 || gi % 4 != 0)) continue;
            std::string const id = base + " d=1 grid#" + std::to_string(gi) + " s=" + std::to_string(s) + " f=" + show(cs) + (thr ? " via vegas()" : "");
            if (!r.want(id)) continue;
            vegas_one<T>(r, id, {grids[gi]}, s, cs, thr != 0);
            if (gi != 0) r.distinct(vf::hash_str(id));
            if (r.wants_sample() && gi >= fixed && s == 2) r.sample(id + " grid [" + grid_str(grids[gi]) + "]");
        }
        // d = 2 (and 3 in the thorough tier): products of a subset
        std::vector<sz> subset;
        for (sz k = 0; k != 6 && k < grids.size(); ++k) subset.push_back((k * 37 + 1) % grids.size());
        if (grids.size() > fixed) { subset.push_back(fixed); subset.push_back(grids.size() - 1); }
        for (sz g0 : subset) for (sz g1 : subset)
        for (sz s : {sz(1), sz(2)})
        for (auto const& cs : integrands(2))
        {
            std::string const id = base + " d=2 grids#" + std::to_string(g0) + "," + std::to_string(g1) + " s=" + std::to_string(s) + " f=" + show(cs);
            if (!r.want(id)) continue;
            vegas_one<T>(r, id, {grids[g0], grids[g1]}, s, cs, false);
            r.distinct(vf::hash_str(id));
        }
        if (thorough && b <= 4)
        {
            for (sz g0 : subset) for (sz g1 : {subset[0], subset.back()}) for (sz g2 : {subset[1], subset.back()})
            for (auto const& cs : integrands(3))
            {
                std::string const id = base + " d=3 grids#" + std::to_string(g0) + "," + std::to_string(g1) + "," + std::to_string(g2) + " f=" + show(cs);
                if (!r.want(id)) continue;
                vegas_one<T>(r, id, {grids[g0], grids[g1], grids[g2]}, 1, cs, false);
                r.distinct(vf::hash_str(id));
            }
        }
        if (r.deadline_hit()) return;
    }
}

// ---- MULTI-CHANNEL -----------------------------------------------------------------------------------

// A map that fills the densities together with the coordinates (the documentation allows it) and only returns the
// jacobian when it is asked for the densities.
template <typename T>
struct early_map
{
    vf::pl_map<T> inner;
    T operator()(std::size_t channel, std::vector<T> const& rn, std::vector<T>& coords, std::vector<std::size_t> const& enabled,
        std::vector<T>& dens, hep::multi_channel_map action) const
    {
        if (action == hep::multi_channel_map::calculate_coordinates)
        {
            inner(channel, rn, coords, enabled, dens, action);
            std::vector<T> tmp(dens.size());
            inner(channel, rn, coords, enabled, tmp, hep::multi_channel_map::calculate_densities);
            dens = tmp;
            return T(1);
        }
        return inner.jacobian(coords);
    }
};

// A map written as a function object with memory: it remembers the coordinates it produced and evaluates the
// densities and the jacobian at the remembered point (ignoring the buffer it is handed).  Legitimate as long as
// both requests of a point go to the same map object.
template <typename T>
struct remembering_map
{
    vf::pl_map<T> inner;
    mutable std::vector<T> remembered;
    T operator()(std::size_t channel, std::vector<T> const& rn, std::vector<T>& coords, std::vector<std::size_t> const& enabled,
        std::vector<T>& dens, hep::multi_channel_map action) const
    {
        if (action == hep::multi_channel_map::calculate_coordinates)
        {
            T const j = inner(channel, rn, coords, enabled, dens, action);
            remembered = coords;
            return j;
        }
        std::vector<T> at = remembered;
        return inner(channel, rn, at, enabled, dens, action);
    }
};

// A map that derives everything from the random numbers it is handed: when asked for the densities it recomputes
// the point from `random_numbers` (the documented input of both requests) and ignores the coordinate buffer.
template <typename T>
struct from_random_numbers_map
{
    vf::pl_map<T> inner;
    T operator()(std::size_t channel, std::vector<T> const& rn, std::vector<T>& coords, std::vector<std::size_t> const& enabled,
        std::vector<T>& dens, hep::multi_channel_map action) const
    {
        if (action == hep::multi_channel_map::calculate_coordinates) return inner(channel, rn, coords, enabled, dens, action);
        std::vector<T> at(coords.size()), unused(dens.size());
        inner(channel, rn, at, enabled, unused, hep::multi_channel_map::calculate_coordinates);
        return inner(channel, rn, at, enabled, dens, action);
    }
};

template <typename T>
static L mc_expected(std::vector<std::pair<int, int>> const& cs, int jac)
{
    L const base = exact_integral<T>(cs);
    switch (jac)
    {
    case 1: return 2 * base;
    case 2: return base / 4;
    case 3:
    {
        // f * (1 + y0): first factor (c + s y)(1 + y) integrates to c + (c + s)/2 + s/3
        L const c = cs[0].first, s = cs[0].second;
        L v = c + (c + s) / 2 + s / 3;
        for (sz k = 1; k != cs.size(); ++k) v *= cs[k].first + cs[k].second / 2.0L;
        return v;
    }
    default: return base;
    }
}

template <typename T>
static void mc_one(report& r, std::string const& id, std::vector<T> const& splits, std::vector<int> const& eighths, int scale, sz d, int jac,
    std::vector<std::pair<int, int>> const& cs, sz m, int entry)
{
    sz const c = splits.size();
    vf::pl_map<T> map;
    map.split = splits; map.dims = d; map.jac = jac;
    map.poison.resize(c);
    std::vector<T> w(c);
    for (sz i = 0; i != c; ++i) { w[i] = T(eighths[i]) / T(8); map.poison[i] = eighths[i] == 0; }
    std::vector<sz> lat(d, m);
    lat.push_back(8);
    sz const n = vf::fill_lattice(lat);
    vf::script_engine gen;
    r.eval();
    L got;
    lin<T>::complaint().clear();
    auto integrand = hep::make_multi_channel_integrand<T>(lin<T>{cs, nullptr, entry == 3}, d, map, d, c);
    if (entry == 0 || entry == 3)
    {
        got = hep::multi_channel_iteration(integrand, n, w, gen).value();
    }
    else if (entry == 5)
    {
        early_map<T> emap{map};
        got = hep::multi_channel_iteration(hep::make_multi_channel_integrand<T>(lin<T>{cs}, d, emap, d, c), n, w, gen).value();
    }
    else if (entry == 6)
    {
        from_random_numbers_map<T> fmap{map};
        got = hep::multi_channel_iteration(hep::make_multi_channel_integrand<T>(lin<T>{cs}, d, fmap, d, c), n, w, gen).value();
    }
    else if (entry == 4)
    {
        // the map keeps state between the two requests of a point
        remembering_map<T> rmap{map, {}};
        got = hep::multi_channel_iteration(hep::make_multi_channel_integrand<T>(lin<T>{cs}, d, rmap, d, c), n, w, gen).value();
    }
    else
    {
        std::vector<T> uw(c);
        for (sz i = 0; i != c; ++i) uw[i] = T(eighths[i] * scale);
        auto chk = hep::make_multi_channel_chkpt<T, vf::script_engine>(uw, T(), T(0.25), gen);
        chk = hep::multi_channel(integrand, std::vector<sz>{n}, chk, vf::never_stop());
        got = chk.results().at(0).value();
    }
    L const want = mc_expected<T>(cs, jac);
    L const tol = 64 * (d + c + 2) * std::numeric_limits<T>::epsilon() * magnitude<T>(cs) * 4;
    if (!(std::fabs(got - want) <= tol))
        r.violate("biased/multi_channel", id, id + ": lattice estimate " + vf::dec(got) + ", integral of f x jacobian " + vf::dec(want) + " (tolerance " + vf::dec(tol) + ")");
    if (!lin<T>::complaint().empty()) r.violate("weight-seen-by-integrand", id, id + ": " + lin<T>::complaint());
}

template <typename T>
static void mc_cases(report& r, bool thorough)
{
    std::string const tn = vf::type_name<T>();
    for (sz c = 1; c <= 3; ++c)
    {
        std::vector<T> const splits = c == 1 ? std::vector<T>{T(0.5)} : c == 2 ? std::vector<T>{T(0.25), T(0.75)} : std::vector<T>{T(0.25), T(0.5), T(0.75)};
        // all compositions of 8 into c parts (zeros allowed)
        std::vector<std::vector<int>> comps;
        if (c == 1) comps = {{8}};
        else if (c == 2) for (int a = 0; a <= 8; ++a) comps.push_back({a, 8 - a});
        else for (int a = 0; a <= 8; ++a) for (int b = 0; a + b <= 8; ++b) comps.push_back({a, b, 8 - a - b});
        for (sz d = 1; d <= 2; ++d)
        for (auto const& e : comps)
        for (int jac = 0; jac != 4; ++jac)
        for (auto const& cs : integrands(d))
        for (int entry = 0; entry != 7; ++entry)    // 0 iteration, 1 via checkpoint, 2 unnormalised, 3 integrand reads the weight, 4 remembering map, 5 densities filled early, 6 densities from the random numbers
        {
            // with the jacobian 1 + y the product f x J must stay linear per cell: constant f in y0 only
            if (jac == 3 && cs[0].second != 0) continue;
            if (d == 2 && (entry == 2 || entry >= 4 || (jac != 0 && jac != 3))) continue;
            int const scale = entry == 2 ? 3 : 1;
            if (entry >= 3 && jac == 2) continue;
            std::string const id = tn + " mc C=" + std::to_string(c) + " d=" + std::to_string(d) + " w8=" + vf::join(e) + " jac=" + std::to_string(jac) + " f=" + show(cs)
                + " entry=" + std::to_string(entry);
            if (!r.want(id)) continue;
            mc_one<T>(r, id, splits, e, scale, d, jac, cs, 12, entry);
            bool hasz = false; for (int v : e) hasz |= v == 0;
            if (hasz || jac) r.distinct(vf::hash_str(id));
            if (r.wants_sample() && c == 3 && hasz && jac == 3) r.sample(id);
        }
        if (r.deadline_hit()) return;
    }
    if (thorough)
    {
        // eighth splits, d = 1: lattice 840 puts every density break point on a cell boundary
        for (int a = 1; a <= 7; ++a) for (int b = a + 1; b <= 7; ++b)
        for (auto const& e : std::vector<std::vector<int>>{{4, 4}, {1, 7}, {0, 8}, {5, 3}})
        for (int jac : {0, 3})
        for (auto const& cs : integrands(1))
        {
            if (jac == 3 && cs[0].second != 0) continue;
            std::string const id = tn + " mc8 splits=" + std::to_string(a) + "/8," + std::to_string(b) + "/8 w8=" + vf::join(e) + " jac=" + std::to_string(jac) + " f=" + show(cs);
            if (!r.want(id)) continue;
            mc_one<T>(r, id, {T(a) / T(8), T(b) / T(8)}, e, 1, 1, jac, cs, 840, 0);
            r.distinct(vf::hash_str(id));
        }
    }
}

// adapted (non-dyadic) weights: stratified form, the channel number is scripted into interval i
template <typename T>
struct adapt_mc
{
    int kind;
    T operator()(hep::multi_channel_point<T> const& p) const
    {
        T const y = p.coordinates()[0];
        return kind == 0 ? T(1) / (T(0.05L) + y) : kind == 1 ? y * y : (y > T(0.5) ? T(3) : T(0.01L));
    }
};

template <typename T>
static void mc_adapted(report& r, bool thorough)
{
    std::string const tn = vf::type_name<T>();
    std::vector<T> const splits = {T(0.25), T(0.5), T(0.75)};
    vf::pl_map<T> amap; amap.split = splits;
    std::set<std::vector<T>> seen;
    std::vector<std::vector<T>> states;
    for (T beta : {T(0.25), T(0.5), T(1)})
    for (T minw : {T(0), T(0.01L), T(0.1L)})
    {
        std::deque<std::pair<std::vector<T>, int>> frontier;
        frontier.push_back({std::vector<T>(3, T(1) / T(3)), 0});
        frontier.push_back({hep::multi_channel_refine_weights(std::vector<T>{T(1), T(0), T(2)}, std::vector<T>(3, T(1)), minw, beta), 0});
        // user weights of which some lie below the minimum weight (the constructor raises them)
        for (auto const& u : {std::vector<T>{T(1), T(1), T(30)}, std::vector<T>{T(1), T(5), T(10)}, std::vector<T>{T(40), T(0), T(1)}})
        {
            auto const w0 = hep::multi_channel_refine_weights(u, std::vector<T>(3, T(1)), minw, beta);
            if (seen.insert(w0).second) { states.push_back(w0); r.state(); }
            frontier.push_back({w0, 0});
        }
        while (!frontier.empty())
        {
            auto cur = frontier.front(); frontier.pop_front();
            if (cur.second == (thorough ? 4 : 3)) continue;
            for (int kind = 0; kind != 3; ++kind)
            {
                vf::script_engine::table().clear();
                vf::script_engine::salt() = 101 + kind;
                vf::script_engine gen;
                auto const res = hep::multi_channel_iteration(hep::make_multi_channel_integrand<T>(adapt_mc<T>{kind}, 1, amap, 1, 3), 40, cur.first, gen);
                auto const nw = hep::multi_channel_refine_weights(cur.first, res.adjustment_data(), minw, beta);
                r.transition();
                bool valid = true;
                for (T v : nw) valid &= std::isfinite(v);
                if (valid && seen.insert(nw).second) { states.push_back(nw); r.state(); frontier.push_back({nw, cur.second + 1}); }
            }
        }
    }
    vf::script_engine::salt() = 0;
    r.count("weight_vectors_reached_by_adaptation", states.size());
    sz const m = 12;
    for (sz si = 0; si != states.size(); ++si)
    for (int jac : {0, 1, 3})
    for (auto const& cs : integrands(1))
    {
        if (jac == 3 && cs[0].second != 0) continue;
        std::string const id = tn + " mcadapt state#" + std::to_string(si) + " jac=" + std::to_string(jac) + " f=" + show(cs);
        if (!r.want(id)) continue;
        r.eval();
        auto const& w = states[si];
        vf::pl_map<T> map; map.split = splits; map.jac = jac; map.poison.resize(3);
        for (sz i = 0; i != 3; ++i) map.poison[i] = w[i] == T();
        L total = 0, cum = 0, wsum = 0;
        for (T v : w) wsum += v;
        for (sz i = 0; i != 3; ++i)
        {
            L const lo = cum / wsum; cum += w[i]; L const hi = cum / wsum;
            if (w[i] == T()) continue;
            // u lattice for the coordinate, channel number in the middle of interval i
            vf::fill_lattice({m});
            auto& t = vf::script_engine::table();
            std::vector<std::uint64_t> tt;
            std::uint64_t const mid = static_cast<std::uint64_t>(((lo + hi) / 2) * 18446744073709551616.0L);
            for (auto x : t) { tt.push_back(x); tt.push_back(mid); }
            t = tt;
            vf::script_engine gen;
            auto const res = hep::multi_channel_iteration(hep::make_multi_channel_integrand<T>(lin<T>{cs}, 1, map, 1, 3), m, w, gen);
            // channel i is selected with probability alpha_i / sum(alpha) (the selector normalises its copy of the weights)
            total += L(w[i]) / wsum * L(res.value());
        }
        L const want = mc_expected<T>(cs, jac);
        L const tol = 64 * 8 * std::numeric_limits<T>::epsilon() * magnitude<T>(cs) * 4;
        if (!(std::fabs(total - want) <= tol))
            r.violate("biased/multi_channel-adapted-weights", id, id + ": weights " + vf::join_dec(w) + ": sum_i alpha_i x (lattice mean in channel i) = " + vf::dec(total) + ", integral " + vf::dec(want));
        r.distinct(vf::hash_str(id));
        if (r.wants_sample() && si == 5) r.sample(id + " weights " + vf::join_dec(w));
    }
}

template <typename T>
static void for_type(report& r)
{
    std::string const tn = vf::type_name<T>();
    if (!r.want_prefix(tn)) return;
    bool const th = r.a().thorough();
    if (r.want_prefix(tn + " plain")) plain_cases<T>(r);
    if (r.want_prefix(tn + " plain-cut")) cut_dist_cases<T>(r);
    if (r.want_prefix(tn + " plain-mpi")) mpi_cases<T>(r);
    if (r.want_prefix(tn + " vegas")) vegas_cases<T>(r, th);
    if (r.want_prefix(tn + " mc C") || r.want_prefix(tn + " mc8")) mc_cases<T>(r, th);
    if (r.want_prefix(tn + " mcadapt")) mc_adapted<T>(r, th);
    vf::script_engine::table().clear();
}

int main(int argc, char** argv)
{
    auto const a = vf::parse_args(argc, argv);
    report r(a);
#if VF_PART_ENABLED(0)
    if (a.nshards == 1 || a.shard % 3 == 0) for_type<float>(r);
#endif
#if VF_PART_ENABLED(1)
    if (a.nshards == 1 || a.shard % 3 == 1) for_type<double>(r);
#endif
#if VF_PART_ENABLED(2)
    if (a.nshards == 1 || a.shard % 3 == 2) for_type<long double>(r);
#endif
    return r.finish();
}
