// C02 — each iteration result is the documented estimator of exactly the sampled values.
// Every value sequence of length N over {0, 1, -3/2, 1/4, 3, NaN} is fed by a scripted integrand to
// plain_iteration / vegas_iteration / multi_channel_iteration (scripted dyadic random numbers); the
// reference model recomputes counters, sums, estimate, variance and adjustment data from the
// integrand's own call log.  Dyadic alphabets make PLAIN and VEGAS sums exact: compared bit for bit.
#include "common.hpp"
#include "engines.hpp"
#include "mcmodel.hpp"

#include "hep/mc.hpp"

#include <cmath>

using vf::report;
typedef std::size_t sz;
typedef long double L;

template <typename T>
struct call_rec
{
    T f;                       // value returned by the integrand
    T w;                       // point.weight() (requested after the value is known, via the log hook)
    std::vector<T> point;
    std::vector<sz> bin;       // VEGAS
    sz channel = 0;            // multi-channel
    std::vector<T> dens;       // multi-channel densities as the map reported them
};

template <typename T>
struct script
{
    std::vector<T> values;          // by call index (cyclic)
    std::vector<call_rec<T>> log;
    bool with_dist = false;
    vf::pl_map<T> const* map = nullptr;
};

template <typename T> static script<T>& S() { static script<T> s; return s; }

template <typename T>
struct fn
{
    template <typename P>
    T record(P const& p, call_rec<T>& rec) const
    {
        auto& s = S<T>();
        rec.f = s.values.empty() ? T() : s.values[s.log.size() % s.values.size()];
        rec.point = p.point();
        return rec.f;
    }
    T operator()(hep::mc_point<T> const& p) const
    {
        call_rec<T> rec; T const f = record(p, rec); rec.w = p.weight(); S<T>().log.push_back(rec); return f;
    }
    T operator()(hep::mc_point<T> const& p, hep::projector<T>& proj) const
    {
        call_rec<T> rec; T const f = record(p, rec); rec.w = p.weight(); S<T>().log.push_back(rec);
        proj.add(0, p.point()[0], f);
        return f;
    }
    T operator()(hep::vegas_point<T> const& p) const
    {
        call_rec<T> rec; T const f = record(p, rec); rec.w = p.weight(); rec.bin = p.bin(); S<T>().log.push_back(rec); return f;
    }
    T operator()(hep::vegas_point<T> const& p, hep::projector<T>& proj) const
    {
        call_rec<T> rec; T const f = record(p, rec); rec.w = p.weight(); rec.bin = p.bin(); S<T>().log.push_back(rec);
        proj.add(0, p.point()[0], f);
        return f;
    }
    void mc_fill(hep::multi_channel_point<T> const& p, call_rec<T>& rec) const
    {
        rec.channel = p.channel();
        rec.point = p.coordinates();
        // the weight is only defined (and only requested by the library) for non-zero values
        if (rec.f != T())
        {
            rec.w = p.weight();
            auto const& m = *S<T>().map;
            rec.dens.resize(m.split.size());
            for (sz c = 0; c != rec.dens.size(); ++c) rec.dens[c] = m.density(c, p.coordinates());
        }
        else rec.w = T();
    }
    T operator()(hep::multi_channel_point<T> const& p) const
    {
        call_rec<T> rec; T const f = record(p, rec); mc_fill(p, rec); S<T>().log.push_back(rec); return f;
    }
    T operator()(hep::multi_channel_point<T> const& p, hep::projector<T>& proj) const
    {
        call_rec<T> rec; T const f = record(p, rec); mc_fill(p, rec); S<T>().log.push_back(rec);
        proj.add(0, p.coordinates()[0], f);
        return f;
    }
};

template <typename T>
struct expect
{
    sz calls = 0, nz = 0, fin = 0;
    bool subnormal = false;      // some value is subnormal: sums are no longer exact in any arithmetic at hand
    L sum = 0, sumsq = 0;
    std::vector<L> bin_sum, bin_sumsq;   // distribution (2 bins on [0,1])
};

template <typename T>
static expect<T> reference(std::vector<call_rec<T>> const& log, sz from, sz n)
{
    expect<T> e;
    e.calls = n;
    e.bin_sum.assign(2, 0); e.bin_sumsq.assign(2, 0);
    for (sz k = from; k != from + n; ++k)
    {
        auto const& c = log[k];
        if (c.f == T()) continue;
        ++e.nz;
        T const fw = c.f * c.w;
        if (!std::isfinite(fw)) continue;
        ++e.fin;
        if (std::fabs(fw) < std::numeric_limits<T>::min()) e.subnormal = true;
        e.sum += fw; e.sumsq += L(fw) * L(fw);
        sz const b = c.point[0] < T(0.5) ? 0 : 1;
        e.bin_sum[b] += fw; e.bin_sumsq[b] += L(fw) * L(fw);
    }
    return e;
}

// compares one result with the reference; `exact`: sums are exactly representable -> bitwise
template <typename T, typename R>
static bool judge(report& r, R const& res, expect<T> const& e, bool exact_requested, bool with_dist, std::string const& id, std::string const& what)
{
    // bit-for-bit only where every partial sum is exactly representable: not with subnormal values next to ordinary ones
    // (a compensated sum in T may then even be more accurate than this reference in long double)
    bool const exact = exact_requested && !e.subnormal;
    L const eps = std::numeric_limits<T>::epsilon();
    auto bad = [&](std::string const& key, std::string const& msg) { r.violate(key, id, what + ": " + msg); return false; };
    if (res.calls() != e.calls) return bad("calls", "calls() = " + std::to_string(res.calls()) + ", requested " + std::to_string(e.calls));
    if (res.non_zero_calls() != e.nz) return bad("non_zero_calls", "non_zero_calls() = " + std::to_string(res.non_zero_calls()) + ", log says " + std::to_string(e.nz));
    if (res.finite_calls() != e.fin) return bad("finite_calls", "finite_calls() = " + std::to_string(res.finite_calls()) + ", log says " + std::to_string(e.fin));
    L const tol_s = exact ? 0 : 16 * eps * std::sqrt(e.sumsq * std::max<sz>(e.fin, 1));
    L const tol_q = (exact ? 0 : 16 * eps * e.sumsq) + L(e.fin + 1) * L(std::numeric_limits<T>::denorm_min());   // squares may underflow
    if (!(std::fabs(L(res.sum()) - e.sum) <= tol_s)) return bad("sum", "sum() = " + vf::dec(L(res.sum())) + ", sum of f*w over the log = " + vf::dec(e.sum));
    if (!(std::fabs(L(res.sum_of_squares()) - e.sumsq) <= tol_q)) return bad("sum_of_squares", "sum_of_squares() = " + vf::dec(L(res.sum_of_squares())) + ", log gives " + vf::dec(e.sumsq));
    if (e.calls >= 1)
    {
        L const want = L(res.sum()) / e.calls;
        // (one step of the subnormal grid on top: a quotient in the subnormal range is rounded to that grid)
        if (!(std::fabs(L(res.value()) - want) <= 4 * eps * std::fabs(want) + L(std::numeric_limits<T>::denorm_min()))) return bad("value", "value() = " + vf::dec(L(res.value())) + ", sum/N = " + vf::dec(want));
    }
    if (e.calls >= 2)
    {
        L const n = e.calls, ev = L(res.sum()) / n;
        L const want = (L(res.sum_of_squares()) / n - ev * ev) / (n - 1);
        L const tol = 16 * eps * (L(res.sum_of_squares()) / n + ev * ev) / (n - 1) + 4 * L(std::numeric_limits<T>::denorm_min());
        if (!(std::fabs(L(res.variance()) - want) <= tol)) return bad("variance", "variance() = " + vf::dec(L(res.variance())) + ", (sumsq/N - E^2)/(N-1) = " + vf::dec(want));
        // error() is documented as the square root of variance(): compare with the accessor's own value, in T's precision
        L const var = res.variance();
        if (var > 0 && !(std::fabs(L(res.error()) - std::sqrt(var)) <= 4 * eps * std::sqrt(var) + L(std::numeric_limits<T>::denorm_min())))
            return bad("error", "error() = " + vf::dec(L(res.error())) + ", sqrt(variance()) = " + vf::dec(std::sqrt(var)));
    }
    if (with_dist)
    {
        if (res.distributions().size() != 1 || res.distributions()[0].results().size() != 2) return bad("distribution-shape", "unexpected distribution shape");
        for (sz b = 0; b != 2; ++b)
        {
            auto const& br = res.distributions()[0].results()[b];
            // bin width 1/2: sums are divided by the bin area
            if (br.calls() != e.calls) return bad("bin-calls", "bin " + std::to_string(b) + " reports calls " + std::to_string(br.calls()));
            if (!(std::fabs(L(br.sum()) - 2 * e.bin_sum[b]) <= 2 * tol_s)) return bad("bin-sum", "bin " + std::to_string(b) + " sum " + vf::dec(L(br.sum())) + ", log gives " + vf::dec(2 * e.bin_sum[b]));
            if (!(std::fabs(L(br.sum_of_squares()) - 4 * e.bin_sumsq[b]) <= 4 * tol_q)) return bad("bin-sum_of_squares", "bin " + std::to_string(b) + " sumsq " + vf::dec(L(br.sum_of_squares())) + ", log gives " + vf::dec(4 * e.bin_sumsq[b]));
        }
    }
    else if (!res.distributions().empty()) return bad("distribution-shape", "distributions without parameters");
    return true;
}

template <typename T>
static bool judge_vegas_adj(report& r, hep::vegas_result<T> const& res, std::vector<call_rec<T>> const& log, sz from, sz n, sz dims, sz bins,
    bool exact, std::string const& id, std::string const& what)
{
    std::vector<L> want(dims * bins, 0), mag(dims * bins, 0);
    for (sz k = from; k != from + n; ++k)
    {
        auto const& c = log[k];
        if (c.f == T()) continue;
        T const fw = c.f * c.w;
        if (!std::isfinite(fw)) continue;
        for (sz j = 0; j != dims; ++j) { want[j * bins + c.bin[j]] += L(fw) * L(fw); mag[j * bins + c.bin[j]] += L(fw) * L(fw); }
    }
    if (res.adjustment_data().size() != dims * bins) { r.violate("vegas-adjustment-size", id, what); return false; }
    for (sz i = 0; i != want.size(); ++i)
    {
        L const tol = (exact ? 0 : 16 * std::numeric_limits<T>::epsilon() * mag[i]) + L(n + 1) * L(std::numeric_limits<T>::denorm_min());   // squares may underflow
        if (!(std::fabs(L(res.adjustment_data()[i]) - want[i]) <= tol))
        {
            r.violate("vegas-adjustment-data", id, what + ": adjustment datum [dim " + std::to_string(i / bins) + ", bin " + std::to_string(i % bins) + "] = "
                + vf::dec(L(res.adjustment_data()[i])) + ", sum of (f*w)^2 over that bin in the log = " + vf::dec(want[i]));
            return false;
        }
    }
    return true;
}

template <typename T>
static bool judge_mc_adj(report& r, hep::multi_channel_result<T> const& res, std::vector<call_rec<T>> const& log, sz from, sz n, sz channels,
    std::string const& id, std::string const& what)
{
    std::vector<L> want(channels, 0);
    for (sz k = from; k != from + n; ++k)
    {
        auto const& c = log[k];
        if (c.f == T()) continue;
        T const fw = c.f * c.w;
        if (!std::isfinite(fw)) continue;
        for (sz j = 0; j != channels; ++j) want[j] += L(c.dens[j]) * L(fw) * L(fw) * L(c.w);
    }
    if (res.adjustment_data().size() != channels) { r.violate("mc-adjustment-size", id, what); return false; }
    for (sz j = 0; j != channels; ++j)
    {
        // a disabled channel has no density the library could rely on (the map is told which channels are enabled so
        // that it can leave the others alone): its datum is not part of the documented sums
        if (res.channel_weights().size() == channels && res.channel_weights()[j] == T()) continue;
        if (!(std::fabs(L(res.adjustment_data()[j]) - want[j]) <= 32 * std::numeric_limits<T>::epsilon() * std::fabs(want[j]) + L(n + 1) * L(std::numeric_limits<T>::denorm_min())))
        {
            r.violate("mc-adjustment-data", id, what + ": adjustment datum of channel " + std::to_string(j) + " = " + vf::dec(L(res.adjustment_data()[j]))
                + ", sum of p_j (f*w)^2 w over the log = " + vf::dec(want[j]));
            return false;
        }
    }
    return true;
}

// random numbers: dyadic alphabet {1/8,3/8,5/8,7/8}, chosen by `rsel` (base-4 digits, then a hash tail)
static void fill_randoms(std::uint64_t rsel, sz count)
{
    auto& t = vf::script_engine::table();
    t.clear();
    std::uint64_t h = rsel;
    for (sz i = 0; i != count; ++i)
    {
        unsigned digit;
        if (i < 16) { digit = (rsel >> (2 * i)) & 3; }
        else { h = vf::splitmix64(h + i); digit = h & 3; }
        t.push_back((std::uint64_t(2 * digit + 1)) << 60);   // (2k+1)/8
    }
}

struct config { int kind; sz dims; int variant; bool dist; };   // kind 0 plain, 1 vegas, 2 multi-channel

template <typename T>
static void one_iteration(report& r, config const& c, std::vector<T> const& values, std::uint64_t rsel, std::string const& id)
{
    sz const n = values.size();
    auto& s = S<T>();
    s.values = values; s.log.clear(); s.with_dist = c.dist;
    r.eval();
    vf::script_engine gen;
    std::string const what = std::string(vf::type_name<T>()) + " " + id;
    auto dparams = hep::make_dist_params<T>(2, T(0), T(1), "x");
    if (c.kind == 0)
    {
        fill_randoms(rsel, n * c.dims);
        auto const res = c.dist ? hep::plain_iteration(hep::make_integrand<T>(fn<T>(), c.dims, dparams), n, gen)
                                : hep::plain_iteration(hep::make_integrand<T>(fn<T>(), c.dims), n, gen);
        if (s.log.size() != n) { r.violate("integrand-call-count", id, what + ": integrand called " + std::to_string(s.log.size()) + " times for N=" + std::to_string(n)); return; }
        judge<T>(r, res, reference(s.log, 0, n), true, c.dist, id, what);
    }
    else if (c.kind == 1)
    {
        fill_randoms(rsel, n * c.dims);
        hep::vegas_pdf<T> pdf(c.dims, 2);
        if (c.variant == 1) for (sz d = 0; d != c.dims; ++d) pdf.set_bin_left(d, 1, T(0.25));
        auto const res = c.dist ? hep::vegas_iteration(hep::make_integrand<T>(fn<T>(), c.dims, dparams), n, pdf, gen)
                                : hep::vegas_iteration(hep::make_integrand<T>(fn<T>(), c.dims), n, pdf, gen);
        if (s.log.size() != n) { r.violate("integrand-call-count", id, what + ": integrand called " + std::to_string(s.log.size()) + " times for N=" + std::to_string(n)); return; }
        if (judge<T>(r, res, reference(s.log, 0, n), true, c.dist, id, what))
            judge_vegas_adj<T>(r, res, s.log, 0, n, c.dims, 2, true, id, what);
    }
    else
    {
        fill_randoms(rsel, n * (c.dims + 1));
        vf::pl_map<T> map;
        map.dims = c.dims;
        std::vector<T> w;
        if (c.variant == 0) { map.split = {T(0.25), T(0.75)}; w = {T(0.25), T(0.75)}; }
        else if (c.variant == 1) { map.split = {T(0.25), T(0.5), T(0.75)}; w = {T(0.5), T(0), T(0.5)}; map.jac = 1; }
        else { map.split = {T(0.25), T(0.75)}; w = {T(0.25), T(0.75)}; map.cut_lo = T(0.0625); map.cut_hi = T(0.5); }   // a region where all densities vanish
        s.map = &map;
        auto const res = c.dist
            ? hep::multi_channel_iteration(hep::make_multi_channel_integrand<T>(fn<T>(), c.dims, map, c.dims, w.size(), dparams), n, w, gen)
            : hep::multi_channel_iteration(hep::make_multi_channel_integrand<T>(fn<T>(), c.dims, map, c.dims, w.size()), n, w, gen);
        if (s.log.size() != n) { r.violate("integrand-call-count", id, what + ": integrand called " + std::to_string(s.log.size()) + " times for N=" + std::to_string(n)); return; }
        if (judge<T>(r, res, reference(s.log, 0, n), false, c.dist, id, what))
            judge_mc_adj<T>(r, res, s.log, 0, n, w.size(), id, what);
        for (sz k = 0; k != w.size(); ++k)
            if (!vf::same_bits(res.channel_weights()[k], w[k])) r.violate("mc-result-weights", id, what + ": result does not record the weights it was given");
    }
}

template <typename T>
static void sequences(report& r, sz max_n)
{
    std::vector<T> const alpha = {T(0), T(1), T(-1.5), T(0.25), T(3), std::numeric_limits<T>::quiet_NaN()};
    std::vector<config> cfgs;
    for (bool dist : {false, true})
    {
        for (sz d : {sz(1), sz(2), sz(3)}) cfgs.push_back({0, d, 0, dist});
        for (sz d : {sz(1), sz(2), sz(3)}) for (int v : {0, 1}) cfgs.push_back({1, d, v, dist});
        for (int v : {0, 1, 2}) cfgs.push_back({2, sz(1), v, dist});
        cfgs.push_back({2, sz(2), 0, dist});
    }
    std::string const tn = vf::type_name<T>();
    for (sz ci = 0; ci != cfgs.size(); ++ci)
    {
        auto const& c = cfgs[ci];
        std::string const cname = tn + " cfg=" + std::to_string(ci) + "(kind=" + std::to_string(c.kind) + ",d=" + std::to_string(c.dims) + ",v="
            + std::to_string(c.variant) + ",dist=" + std::to_string(c.dist) + ")";
        if (!r.want_prefix(cname.substr(0, std::min(cname.size(), r.a().replay_case.size())))) continue;
        for (sz n : {sz(0), sz(1), sz(2), sz(3), sz(4), sz(5), sz(7)})
        {
            if (n > max_n) continue;
            std::vector<sz> idx(n, 0);
            std::uint64_t seqno = 0;
            for (;;)
            {
                std::vector<T> values(n);
                sz nonzero = 0;
                for (sz i = 0; i != n; ++i) { values[i] = alpha[idx[i]]; nonzero += idx[i] != 0; }
                // random numbers: exhaustive over the alphabet for N <= 2 (and N = 3 in one dimension), a different
                // pattern per sequence above
                sz const numbers = n * (c.dims + (c.kind == 2 ? 1 : 0));
                std::uint64_t const rcount = (numbers <= 4) ? (std::uint64_t(1) << (2 * numbers)) : 1;
                for (std::uint64_t rs = 0; rs != rcount; ++rs)
                {
                    std::uint64_t const rsel = rcount > 1 ? rs : vf::splitmix64(seqno * 31 + ci);
                    std::string const id = cname + " N=" + std::to_string(n) + " seq=" + vf::join(idx) + " r=" + std::to_string(rsel);
                    if (!r.want(id)) continue;
                    one_iteration<T>(r, c, values, rsel, id);
                    if (nonzero >= 2) r.distinct(vf::hash_str(id));
                    if (r.wants_sample() && n == 4 && nonzero == 3 && c.kind == 1 && c.variant == 1) r.sample(id);
                }
                ++seqno;
                sz k = 0;
                while (k != n && ++idx[k] == alpha.size()) { idx[k] = 0; ++k; }
                if (k == n) break;
            }
            if (r.deadline_hit()) return;
        }
    }
}

// three iterations with unequal N through the full integrators (later iterations use adapted state)
template <typename T>
static void multi_iteration(report& r)
{
    std::string const tn = vf::type_name<T>();
    // (a subnormal value is a finite, non-zero value like any other)
    std::vector<T> const alpha = {T(0), T(1), T(-1.5), T(0.25), T(3), std::numeric_limits<T>::quiet_NaN(), std::numeric_limits<T>::denorm_min() * T(8), -std::numeric_limits<T>::min() / T(4)};
    std::vector<std::vector<sz>> const calls_lists = {{3, 0, 5}, {1, 2, 7}, {4, 4, 4}, {2, 9, 1}};
    for (int kind = 0; kind != 3; ++kind)
    for (bool dist : {false, true})
    for (sz li = 0; li != calls_lists.size(); ++li)
    for (std::uint64_t pat = 0; pat != 24; ++pat)
    {
        std::string const id = tn + " run kind=" + std::to_string(kind) + " dist=" + std::to_string(dist) + " calls=" + vf::join(calls_lists[li]) + " pattern=" + std::to_string(pat);
        if (!r.want(id)) continue;
        r.eval();
        auto const& calls = calls_lists[li];
        sz total = 0; for (sz c : calls) total += c;
        auto& s = S<T>();
        s.values.clear(); s.log.clear();
        for (sz i = 0; i != total + 1; ++i) s.values.push_back(alpha[vf::splitmix64(pat * 1000 + i) % alpha.size()]);
        fill_randoms(vf::splitmix64(pat), 3 * total + 3);
        std::string const what = id;
        auto dparams = hep::make_dist_params<T>(2, T(0), T(1), "x");
        vf::script_engine gen;
        if (kind == 0)
        {
            auto chk = hep::make_plain_chkpt<T, vf::script_engine>(gen);
            chk = dist ? hep::plain(hep::make_integrand<T>(fn<T>(), 2, dparams), calls, chk, vf::never_stop())
                       : hep::plain(hep::make_integrand<T>(fn<T>(), 2), calls, chk, vf::never_stop());
            if (chk.results().size() != calls.size() || s.log.size() != total) { r.violate("integrand-call-count", id, what + ": " + std::to_string(s.log.size()) + " calls logged, " + std::to_string(total) + " requested"); continue; }
            sz from = 0;
            for (sz k = 0; k != calls.size(); ++k) { judge<T>(r, chk.results()[k], reference(s.log, from, calls[k]), true, dist, id, what + " iteration " + std::to_string(k)); from += calls[k]; }
        }
        else if (kind == 1)
        {
            auto chk = hep::make_vegas_chkpt<T, vf::script_engine>(2, T(0.75), gen);
            chk = dist ? hep::vegas(hep::make_integrand<T>(fn<T>(), 2, dparams), calls, chk, vf::never_stop())
                       : hep::vegas(hep::make_integrand<T>(fn<T>(), 2), calls, chk, vf::never_stop());
            if (chk.results().size() != calls.size() || s.log.size() != total) { r.violate("integrand-call-count", id, what + ": " + std::to_string(s.log.size()) + " calls logged, " + std::to_string(total) + " requested"); continue; }
            sz from = 0;
            for (sz k = 0; k != calls.size(); ++k)
            {
                std::string const w2 = what + " iteration " + std::to_string(k);
                if (judge<T>(r, chk.results()[k], reference(s.log, from, calls[k]), false, dist, id, w2))
                    judge_vegas_adj<T>(r, chk.results()[k], s.log, from, calls[k], 2, 2, false, id, w2);
                from += calls[k];
            }
        }
        else
        {
            vf::pl_map<T> map; map.dims = 1; map.split = {T(0.25), T(0.5), T(0.75)}; map.jac = 3;
            s.map = &map;
            auto chk = hep::make_multi_channel_chkpt<T, vf::script_engine>(std::vector<T>{T(1), T(2), T(1)}, T(0.01L), T(0.5), gen);
            chk = dist ? hep::multi_channel(hep::make_multi_channel_integrand<T>(fn<T>(), 1, map, 1, 3, dparams), calls, chk, vf::never_stop())
                       : hep::multi_channel(hep::make_multi_channel_integrand<T>(fn<T>(), 1, map, 1, 3), calls, chk, vf::never_stop());
            if (chk.results().size() != calls.size() || s.log.size() != total) { r.violate("integrand-call-count", id, what + ": " + std::to_string(s.log.size()) + " calls logged, " + std::to_string(total) + " requested"); continue; }
            sz from = 0;
            for (sz k = 0; k != calls.size(); ++k)
            {
                std::string const w2 = what + " iteration " + std::to_string(k);
                if (judge<T>(r, chk.results()[k], reference(s.log, from, calls[k]), false, dist, id, w2))
                    judge_mc_adj<T>(r, chk.results()[k], s.log, from, calls[k], 3, id, w2);
                from += calls[k];
            }
        }
        r.distinct(vf::hash_str(id));
    }
}

// The accessors for counters no iteration of a check can run through (N beyond 2^32): results as they are
// read back from a checkpoint of a long run.  value, variance and error must follow the documented
// formulas for every N a std::size_t can hold.
template <typename T>
static void large_counts(report& r)
{
    L const eps = std::numeric_limits<T>::epsilon();
    std::vector<sz> const ns = {2, 3, 1000, 65535, 65536, 65537, (sz(1) << 31) - 1, sz(1) << 31, (sz(1) << 32) - 1, sz(1) << 32, (sz(1) << 32) + 1,
        (sz(1) << 32) + 2, 3 * (sz(1) << 32) + 7, sz(1) << 40, (sz(1) << 53) + 1, sz(1) << 62, ~sz(0)};
    std::vector<std::pair<L, L>> const shapes = {{1, 1}, {0.5L, 2}, {-3, 0.25L}, {0, 1}, {1e-3L, 1e-3L}, {100, 1}};   // mean and spread of f*w
    for (sz n : ns) for (auto const& sh : shapes) for (int text = 0; text != 2; ++text)
    {
        std::string const id = std::string(vf::type_name<T>()) + " large-counts N=" + std::to_string(n) + " mean=" + vf::dec(sh.first) + " spread=" + vf::dec(sh.second) + (text ? " read-from-text" : "");
        if (!r.want(id)) continue;
        T const sum = T(L(n) * sh.first), sumsq = T(L(n) * (sh.first * sh.first + sh.second * sh.second));
        if (!std::isfinite(sum) || !std::isfinite(sumsq) || !std::isfinite(sum * sum)) continue;   // the documented formula squares the sum: out of T's range for float at N >= 2^62
        hep::plain_result<T> res(std::vector<hep::distribution_result<T>>(), n, n / 2 + 1, n / 2 + 1, sum, sumsq);
        if (text)
        {
            std::ostringstream o; res.serialize(o);
            std::istringstream in(o.str());
            res = hep::plain_result<T>(in);
        }
        r.eval();
        L const ln = n, ev = L(res.sum()) / ln;
        if (res.calls() != n) { r.violate("calls", id, id + ": calls() = " + std::to_string(res.calls())); continue; }
        if (!(std::fabs(L(res.value()) - ev) <= 4 * eps * std::fabs(ev))) r.violate("value", id, id + ": value() = " + vf::dec(L(res.value())) + ", sum/N = " + vf::dec(ev));
        L const want = (L(res.sum_of_squares()) / ln - ev * ev) / (ln - 1);
        L const tol = 16 * eps * (L(res.sum_of_squares()) / ln + ev * ev) / (ln - 1);
        if (!(std::fabs(L(res.variance()) - want) <= tol)) r.violate("variance", id, id + ": variance() = " + vf::dec(L(res.variance())) + ", (sumsq/N - E^2)/(N-1) = " + vf::dec(want));
        L const var = res.variance();
        if (var > 0 && !(std::fabs(L(res.error()) - std::sqrt(var)) <= 4 * eps * std::sqrt(var)))
            r.violate("error", id, id + ": error() = " + vf::dec(L(res.error())) + ", sqrt(variance()) = " + vf::dec(std::sqrt(var)));
        r.distinct(vf::hash_str(id));
    }
}

template <typename T>
static void for_type(report& r)
{
    if (!r.want_prefix(vf::type_name<T>())) return;
    sequences<T>(r, r.a().thorough() ? 7 : 5);
    multi_iteration<T>(r);
    large_counts<T>(r);
    vf::script_engine::table().clear();
}

int main(int argc, char** argv)
{
    auto const a = vf::parse_args(argc, argv);
    report r(a);
#if VF_PART_ENABLED(0)
    if (a.nshards == 1 || a.shard % 3 == 0) for_type<float>(r);
#endif
#if VF_PART_ENABLED(1)
    if (a.nshards == 1 || a.shard % 3 == 1) for_type<double>(r);
#endif
#if VF_PART_ENABLED(2)
    if (a.nshards == 1 || a.shard % 3 == 2) for_type<long double>(r);
#endif
    return r.finish();
}
