// C03 — resuming from a checkpoint is indistinguishable from never stopping.
// Every composition of the iteration list into segments (all 2^(n-1) sets of interruption points)
// x every way to carry the checkpoint across an interruption: kept in memory ('m'), written to text
// and read back ('t'), or taken from the file the built-in callback wrote after that iteration
// ('f').  Oracle (confluence): after k iterations every path must hold exactly the text G_k of the
// uninterrupted run, for every k.
#include "common.hpp"
#include "engines.hpp"
#include "fields.hpp"
#include "mcmodel.hpp"

#include "hep/mc.hpp"

#include <cmath>
#include <fstream>
#include <set>
#include <sys/stat.h>
#include <unistd.h>

using vf::report;
typedef std::size_t sz;

static std::vector<sz> g_calls;
static std::string g_file;

static std::string read_file(std::string const& path)
{
    std::ifstream in(path);
    std::stringstream s;
    s << in.rdbuf();
    return s.str();
}

// distribution variants: 0 none, 1 one 1-d "a b", 2 one 1-d with the empty name, 3 one 2-d " lead", 4 two distributions
template <typename T>
static std::vector<hep::distribution_parameters<T>> dist_params(int variant)
{
    std::vector<hep::distribution_parameters<T>> p;
    switch (variant)
    {
    case 1: p.push_back(hep::make_dist_params<T>(3, T(0), T(1), "a b")); break;
    case 2: p.push_back(hep::make_dist_params<T>(2, T(-1), T(1))); break;
    case 3: p.emplace_back(2, 2, T(0), T(1), T(0), T(2), " lead"); break;
    case 4: p.push_back(hep::make_dist_params<T>(2, T(0), T(1), "first one ")); p.emplace_back(1, 2, T(0), T(1), T(0), T(1), ""); break;
    }
    return p;
}

static int g_variant = 0;

template <typename T>
struct f_plain
{
    static T val(std::vector<T> const& x) { T v = T(1); for (T y : x) v *= T(0.25) + y * (T(2) - y); return v; }
    static void project(int variant, hep::projector<T>& proj, T x, T y, T v)
    {
        switch (variant)
        {
        case 1: case 2: proj.add(0, x, v); break;
        case 3: proj.add(0, x, y + x, v); break;
        case 4: proj.add(0, x, v); proj.add(1, y, x, v); break;
        }
    }
    T operator()(hep::mc_point<T> const& p) const { return val(p.point()); }
    T operator()(hep::mc_point<T> const& p, hep::projector<T>& proj) const
    {
        T const v = val(p.point());
        project(g_variant, proj, p.point()[0], p.point()[1], v);
        return v;
    }
};

template <typename T>
struct f_mc
{
    T operator()(hep::multi_channel_point<T> const& p) const { T const y = p.coordinates()[0]; return y < T(0.4L) ? T(3) * y : T(0.5) - y * T(0.25); }
    T operator()(hep::multi_channel_point<T> const& p, hep::projector<T>& proj) const
    {
        T const y = p.coordinates()[0];
        T const v = y < T(0.4L) ? T(3) * y : T(0.5) - y * T(0.25);
        f_plain<T>::project(g_variant, proj, y, p.point()[0], v);
        return v;
    }
};

template <typename C>
static std::string text_of(C const& c) { std::ostringstream o; c.serialize(o); return o.str(); }

// snapshots the checkpoint file after every invocation of the built-in callback
template <typename C, typename Inner = hep::callback<C>>
struct snap_cb
{
    Inner inner;
    std::vector<std::string>* snaps;
    bool operator()(C const& c)
    {
        bool const more = inner(c);
        if (snaps) snaps->push_back(read_file(g_file));
        return more;
    }
};

template <typename T, typename E, typename C> struct kit;

template <typename T, typename E>
struct kit<T, E, hep::plain_chkpt_with_rng<E, T>>
{
    using C = hep::plain_chkpt_with_rng<E, T>;
    using Base = hep::plain_chkpt<T>;
    static C fresh(int) { E g; g.seed(7); return hep::make_plain_chkpt<T, E>(g); }
    template <typename CB>
    static C run(C const& c, std::vector<sz> const& calls, int variant, CB cb)
    {
        g_variant = variant;
        if (variant == 0) return hep::plain(hep::make_integrand<T>(f_plain<T>(), 2), calls, c, cb);
        return hep::plain(hep::integrand<T, f_plain<T>, true>(f_plain<T>(), 2, dist_params<T>(variant)), calls, c, cb);
    }
    static C load(std::istream& in) { return hep::make_plain_chkpt<T, E>(in); }
};

template <typename T, typename E>
struct kit<T, E, hep::vegas_chkpt_with_rng<E, T>>
{
    using C = hep::vegas_chkpt_with_rng<E, T>;
    using Base = hep::vegas_chkpt<T>;
    static C fresh(int cfg)
    {
        E g; g.seed(7);
        if (cfg == 1) return hep::make_vegas_chkpt<T, E>(5, T(1.5), g);
        hep::vegas_pdf<T> pdf(2, 3);
        pdf.set_bin_left(0, 1, T(0.2L)); pdf.set_bin_left(1, 2, T(0.95L));
        return hep::make_vegas_chkpt<T, E>(pdf, T(11) / T(30), g);   // needs every digit
    }
    template <typename CB>
    static C run(C const& c, std::vector<sz> const& calls, int variant, CB cb)
    {
        g_variant = variant;
        if (variant == 0) return hep::vegas(hep::make_integrand<T>(f_plain<T>(), 2), calls, c, cb);
        return hep::vegas(hep::integrand<T, f_plain<T>, true>(f_plain<T>(), 2, dist_params<T>(variant)), calls, c, cb);
    }
    static C load(std::istream& in) { return hep::make_vegas_chkpt<T, E>(in); }
};

template <typename T, typename E>
struct kit<T, E, hep::multi_channel_chkpt_with_rng<E, T>>
{
    using C = hep::multi_channel_chkpt_with_rng<E, T>;
    using Base = hep::multi_channel_chkpt<T>;
    static C fresh(int cfg)
    {
        E g; g.seed(7);
        if (cfg == 3) return hep::make_multi_channel_chkpt<T, E>(T(0.01L), T(0.25), g);
        return hep::make_multi_channel_chkpt<T, E>(std::vector<T>{T(2), T(0), T(1)}, T(1) / T(30), T(5) / T(11), g);
    }
    template <typename CB>
    static C run(C const& c, std::vector<sz> const& calls, int variant, CB cb)
    {
        g_variant = variant;
        vf::pl_map<T> map; map.split = {T(0.25), T(0.5), T(0.75)}; map.jac = 3;
        if (variant == 0) return hep::multi_channel(hep::make_multi_channel_integrand<T>(f_mc<T>(), 1, map, 1, 3), calls, c, cb);
        return hep::multi_channel(hep::multi_channel_integrand<T, f_mc<T>, vf::pl_map<T>, true>(f_mc<T>(), 1, map, 1, 3, dist_params<T>(variant)), calls, c, cb);
    }
    static C load(std::istream& in) { return hep::make_multi_channel_chkpt<T, E>(in); }
};

template <typename T, typename E, typename C>
struct explorer
{
    report& r;
    int cfg, variant;
    bool with_target;
    std::string base;
    T target = T();
    sz stop = 0;                        // number of iterations the uninterrupted run performs
    std::vector<std::string> golden;    // G_0..G_stop
    std::vector<std::set<std::string>> texts_at;   // distinct texts seen per depth (must be 1 each)

    using K = kit<T, E, C>;
    using CB = hep::callback<C>;

    CB silent() const { return CB(hep::callback_mode::silent, "", target); }

    bool make_golden()
    {
        sz const n = g_calls.size();
        if (with_target)
        {
            // choose a target that the combined relative error passes after exactly two iterations
            C c = K::run(K::fresh(cfg), g_calls, variant, vf::never_stop());
            std::vector<T> rel;
            for (sz k = 1; k <= n; ++k)
            {
                auto const acc = hep::accumulate<hep::weighted_with_variance>(c.results().begin(), c.results().begin() + k);
                rel.push_back(acc.error() / std::fabs(acc.value()));
            }
            if (!(rel[1] < rel[0])) { r.count("configs_without_usable_target"); return false; }
            target = (rel[0] + rel[1]) / T(2);
        }
        C full = K::run(K::fresh(cfg), g_calls, variant, silent());
        stop = full.results().size();
        if (with_target && stop != 2) { r.violate("target-stop-not-at-expected-iteration", base, base + ": uninterrupted run with target " + vf::dec(target) + " performed " + std::to_string(stop) + " iterations"); return false; }
        if (!with_target && stop != n) { r.violate("uninterrupted-run-stopped-early", base, base + ": uninterrupted run without target performed " + std::to_string(stop) + " of " + std::to_string(n) + " iterations"); return false; }
        for (sz k = 0; k <= stop; ++k)
        {
            std::vector<sz> calls(g_calls.begin(), g_calls.begin() + k);
            C c = K::run(K::fresh(cfg), calls, variant, vf::never_stop());
            golden.push_back(text_of(c));
        }
        if (text_of(full) != golden[stop]) { r.violate("uninterrupted-run-not-reproducible", base, base + ": the run with the built-in callback differs from the run with a user callback"); return false; }
        texts_at.assign(stop + 1, {});
        return true;
    }

    bool check_state(C const& c, sz k, std::string const& id, std::string const& how)
    {
        if (c.results().size() != k)
        {
            r.violate("wrong-number-of-results", id, id + ": " + how + " holds " + std::to_string(c.results().size()) + " results, expected " + std::to_string(k));
            return false;
        }
        std::string const t = text_of(c);
        texts_at[k].insert(t);
        if (t != golden[k])
        {
            r.violate("resumed-run-differs", id, id + ": " + how + " after " + std::to_string(k) + " iterations differs from the uninterrupted run: " + vf::first_difference(t, golden[k]));
            return false;
        }
        return true;
    }

    // path = sequence of (mode, length) segments, e.g. "t2m1f1"; length of the last one may exceed what is performed (target)
    void dfs(C const& c, sz k, std::string const& path)
    {
        if (k == stop) { r.distinct(vf::hash_str(base + path)); return; }
        sz const remaining = g_calls.size() - k;
        // 'b' is 'f' with the callback spelled for the checkpoint's base type (hep::callback<hep::vegas_chkpt<T>>, as the
        // library's own tests and examples do)
        for (char mode : {'m', 't', 'f', 'b'})
        {
            for (sz j = 1; j <= remaining; ++j)
            {
                // an interruption is an externally caused stop before the run's own end
                bool const last = (j == remaining);
                if (!last && k + j >= stop && with_target) continue;
                std::string const seg = std::string(1, mode) + std::to_string(j);
                std::string const id = base + " path=" + path + seg;
                bool const exec = r.want(id);
                bool const prefix = r.a().replay && r.a().replay_case.compare(0, id.size(), id) == 0;
                if (!exec && !prefix) continue;
                if (exec) { r.eval(); r.transition(); }
                std::vector<sz> calls(g_calls.begin() + k, g_calls.begin() + k + j);
                sz const expect = std::min(k + j, stop);
                C next = c;
                bool ok = true;
                if (mode == 'm')
                {
                    next = K::run(c, calls, variant, silent());
                }
                else if (mode == 't')
                {
                    std::istringstream in(text_of(c));
                    C loaded = K::load(in);
                    if (in.fail()) { r.violate("reload-failed", id, id + ": stream failed while reading the checkpoint text back"); continue; }
                    next = K::run(loaded, calls, variant, silent());
                }
                else
                {
                    // the file the built-in callback writes after each iteration is what a killed run leaves behind
                    ::unlink(g_file.c_str());
                    std::vector<std::string> snaps;
                    C ret = c;
                    if (mode == 'f')
                    {
                        snap_cb<C> cb{CB(hep::callback_mode::silent_and_write_chkpt, g_file, target), &snaps};
                        ret = K::run(c, calls, variant, cb);
                    }
                    else
                    {
                        using BaseCB = hep::callback<typename K::Base>;
                        snap_cb<C, BaseCB> cb{BaseCB(hep::callback_mode::silent_and_write_chkpt, g_file, target), &snaps};
                        ret = K::run(c, calls, variant, cb);
                    }
                    if (snaps.size() != expect - k) { r.violate("callback-invocations", id, id + ": callback ran " + std::to_string(snaps.size()) + " times for " + std::to_string(expect - k) + " iterations"); continue; }
                    for (sz i = 0; i != snaps.size() && ok; ++i)
                    {
                        if (snaps[i] != golden[k + i + 1])
                        {
                            r.violate("checkpoint-file-differs", id, id + ": file written after iteration " + std::to_string(k + i + 1) + " differs from the uninterrupted run: " + vf::first_difference(snaps[i], golden[k + i + 1]));
                            ok = false;
                        }
                    }
                    if (!ok) continue;
                    std::ifstream in(g_file);
                    next = K::load(in);
                    if (in.fail()) { r.violate("reload-failed", id, id + ": stream failed while reading the checkpoint file back"); continue; }
                    if (text_of(ret) != text_of(next)) { r.violate("checkpoint-file-differs", id, id + ": the file differs from the checkpoint the integrator returned"); continue; }
                }
                if (!check_state(next, expect, id, std::string("the checkpoint carried by '") + mode + "'")) continue;
                if (r.wants_sample() && path.size() >= 4 && mode == 'f') r.sample(id);
                // 'b' differs from 'f' only in how the callback is spelled: explore it as a leaf-extending carrier for the
                // first two segments only, to keep the path count in check
                if (mode == 'b' && path.size() >= 4) continue;
                dfs(next, expect, path + seg);
            }
        }
    }

    void go()
    {
        if (!make_golden()) return;
        C start = K::run(K::fresh(cfg), {}, variant, vf::never_stop());
        if (r.want(base + " path=")) check_state(start, 0, base + " path=", "the initial checkpoint");
        dfs(start, 0, "");
        for (sz k = 0; k != texts_at.size(); ++k)
        {
            r.state(texts_at[k].size());
            r.outcome("distinct texts at some depth (must be one per depth)", base + std::to_string(k) + *texts_at[k].begin());
        }
    }
};

template <typename C> struct tag_of { using type = C; };

template <typename T, typename E>
static void engine(report& r)
{
    for (int cfg = 0; cfg != 5; ++cfg)
    for (int variant = 0; variant != 5; ++variant)
    for (int tgt = 0; tgt != 2; ++tgt)
    {
        std::string const base = std::string(vf::type_name<T>()) + " " + vf::engine_name<E>() + " cfg=" + std::to_string(cfg) + " dist=" + std::to_string(variant)
            + " target=" + std::to_string(tgt);
        if (!r.want_prefix(base.substr(0, std::min(base.size(), r.a().replay_case.size())))) continue;
        auto go = [&](auto tag) {
            using C = typename decltype(tag)::type;
            explorer<T, E, C> ex{r, cfg, variant, tgt != 0, base};
            ex.go();
        };
        if (cfg == 0) go(tag_of<hep::plain_chkpt_with_rng<E, T>>());
        else if (cfg <= 2) go(tag_of<hep::vegas_chkpt_with_rng<E, T>>());
        else go(tag_of<hep::multi_channel_chkpt_with_rng<E, T>>());
        if (r.deadline_hit()) return;
    }
}

template <typename T>
static void for_type(report& r, int group)
{
    if (!r.want_prefix(vf::type_name<T>())) return;
#if !defined(VF_PART) || VF_PART / 3 == 0
    if (group < 0 || group == 0) { engine<T, std::mt19937>(r); engine<T, std::minstd_rand>(r); engine<T, std::ranlux24_base>(r); }
#endif
#if !defined(VF_PART) || VF_PART / 3 == 1
    if (group < 0 || group == 1) { engine<T, std::ranlux48>(r); engine<T, std::knuth_b>(r); engine<T, std::mt19937_64>(r); }
#endif
#if !defined(VF_PART) || VF_PART / 3 == 2
    if (group < 0 || group == 2) { engine<T, std::minstd_rand0>(r); engine<T, std::ranlux48_base>(r); engine<T, std::ranlux24>(r); }
#endif
}

int main(int argc, char** argv)
{
    auto const a = vf::parse_args(argc, argv);
    report r(a);
    g_calls = a.thorough() ? std::vector<sz>{7, 12, 5, 9, 6} : std::vector<sz>{7, 12, 5, 9};
    ::mkdir("build", 0777); ::mkdir("build/out", 0777); ::mkdir("build/out/tmp", 0777);
    g_file = "build/out/tmp/c03_" + std::to_string(::getpid()) + ".chkpt";
#ifdef VF_PART
    int const type = VF_PART % 3, group = VF_PART / 3;
#else
    int const type = -1, group = -1;
#endif
#if !defined(VF_PART) || VF_PART % 3 == 0
    if (type < 0 || type == 0) for_type<float>(r, group);
#endif
#if !defined(VF_PART) || VF_PART % 3 == 1
    if (type < 0 || type == 1) for_type<double>(r, group);
#endif
#if !defined(VF_PART) || VF_PART % 3 == 2
    if (type < 0 || type == 2) for_type<long double>(r, group);
#endif
    ::unlink(g_file.c_str());
    return r.finish();
}
