// C04 — MPI runs sample the same points as the serial run for every world size.
// The real mpi_plain / mpi_vegas / mpi_multi_channel run under the MPI environment of
// harness/mpienv.hpp.  Schedules = reduction orders of every collective: all P! left folds plus the
// balanced tree for small worlds (pruned by distinct reduced bytes), three canonical orders for
// worlds up to 33.  Oracles per complete execution: identical collective sequence on all ranks (no
// hang), identical checkpoint on all ranks, the per-rank point logs concatenated in rank order equal
// bit for bit the point log of the serial *_iteration started from the recorded state and generator,
// counters and stored generators equal the serial ones, sums within reassociation tolerance (bit
// identical where the arithmetic is exact).
#include "common.hpp"
#include "engines.hpp"
#include "fields.hpp"
#include "mcmodel.hpp"
#include "mpienv.hpp"

#include "hep/mc.hpp"
#include "hep/mc-mpi.hpp"

#include <cmath>

using vf::report;
typedef std::size_t sz;
typedef long double L;

static std::vector<std::string> g_log;        // one record per integrand call
static std::vector<sz> g_bounds;              // log size at every callback invocation
static int g_fn = 0;                          // 0 dyadic (exact sums), 1 smooth with a cut, 2 the same with non-finite values in some cells

template <typename T>
static std::string rec(std::vector<T> const& p, T w, std::vector<sz> const* bin, sz channel)
{
    std::string s;
    for (T x : p) s += vf::hexf(x) + " ";
    s += "w=" + vf::hexf(w);
    if (bin) s += " b=" + vf::join(*bin);
    s += " c=" + std::to_string(channel);
    return s;
}

template <typename T>
static T fval(std::vector<T> const& y)
{
    if (g_fn == 0) { T v = T(0.25); for (T x : y) v += T(static_cast<sz>(x * T(8))) / T(8); return v; }
    if (g_fn == 2 && static_cast<sz>(y[0] * T(16)) % 4 == 1) return std::numeric_limits<T>::quiet_NaN();
    if (g_fn >= 1 && static_cast<sz>(y[0] * T(16)) % 4 == 3) return T();     // a cut: exactly zero on a quarter of the domain
    T v = T(1); for (T x : y) v *= T(1) / (T(0.1L) + x); return v;
}

template <typename T>
struct pfn
{
    T operator()(hep::mc_point<T> const& p) const { g_log.push_back(rec<T>(p.point(), p.weight(), nullptr, 0)); return fval<T>(p.point()); }
    T operator()(hep::mc_point<T> const& p, hep::projector<T>& proj) const
    {
        g_log.push_back(rec<T>(p.point(), p.weight(), nullptr, 0));
        T const v = fval<T>(p.point());
        proj.add(0, p.point()[0], v);
        proj.add(1, p.point()[1], p.point()[0], v);
        return v;
    }
    T operator()(hep::vegas_point<T> const& p) const { g_log.push_back(rec<T>(p.point(), p.weight(), &p.bin(), 0)); return fval<T>(p.point()); }
    T operator()(hep::vegas_point<T> const& p, hep::projector<T>& proj) const
    {
        g_log.push_back(rec<T>(p.point(), p.weight(), &p.bin(), 0));
        T const v = fval<T>(p.point());
        proj.add(0, p.point()[0], v);
        proj.add(1, p.point()[1], p.point()[0], v);
        return v;
    }
    T operator()(hep::multi_channel_point<T> const& p) const
    {
        T const v = fval<T>(p.coordinates());
        g_log.push_back(rec<T>(p.coordinates(), p.weight(), nullptr, p.channel()));
        return v;
    }
    T operator()(hep::multi_channel_point<T> const& p, hep::projector<T>& proj) const
    {
        T const v = fval<T>(p.coordinates());
        g_log.push_back(rec<T>(p.coordinates(), p.weight(), nullptr, p.channel()));
        proj.add(0, p.coordinates()[0], v);
        proj.add(1, p.coordinates()[0], p.point()[0], v);
        return v;
    }
};

template <typename C>
struct bound_cb
{
    hep::mpi_callback<C> inner;
    bool operator()(MPI_Comm comm, C const& c) { g_bounds.push_back(g_log.size()); return inner(comm, c); }
};

template <typename C>
static std::string text_of(C const& c) { std::ostringstream o; c.serialize(o); return o.str(); }

template <typename T, typename E, int K> struct kit;

template <typename T, typename E> struct kit<T, E, 0>
{
    using C = hep::plain_chkpt_with_rng<E, T>;
    using R = hep::plain_result<T>;
    static C fresh() { E g; g.seed(5); return hep::make_plain_chkpt<T, E>(g); }
    static sz numbers() { return 2; }
    template <typename CB> static C mpi(std::vector<sz> const& calls, bool dist, CB cb)
    {
        return dist ? hep::mpi_plain(vf::current_env()->comm(), hep::make_integrand<T>(pfn<T>(), 2, hep::make_dist_params<T>(3, T(0), T(1), "d"), hep::distribution_parameters<T>(2, 2, T(0), T(1), T(0), T(1), "e")), calls, fresh(), cb)
                    : hep::mpi_plain(vf::current_env()->comm(), hep::make_integrand<T>(pfn<T>(), 2), calls, fresh(), cb);
    }
    static R serial(R const&, sz calls, bool dist, E& gen)
    {
        return dist ? hep::plain_iteration(hep::make_integrand<T>(pfn<T>(), 2, hep::make_dist_params<T>(3, T(0), T(1), "d"), hep::distribution_parameters<T>(2, 2, T(0), T(1), T(0), T(1), "e")), calls, gen)
                    : hep::plain_iteration(hep::make_integrand<T>(pfn<T>(), 2), calls, gen);
    }
    static std::vector<T> adj(R const&) { return {}; }
};

template <typename T, typename E> struct kit<T, E, 1>
{
    using C = hep::vegas_chkpt_with_rng<E, T>;
    using R = hep::vegas_result<T>;
    static C fresh() { E g; g.seed(5); return hep::make_vegas_chkpt<T, E>(4, T(0.875), g); }
    static sz numbers() { return 2; }
    template <typename CB> static C mpi(std::vector<sz> const& calls, bool dist, CB cb)
    {
        return dist ? hep::mpi_vegas(vf::current_env()->comm(), hep::make_integrand<T>(pfn<T>(), 2, hep::make_dist_params<T>(3, T(0), T(1), "d"), hep::distribution_parameters<T>(2, 2, T(0), T(1), T(0), T(1), "e")), calls, fresh(), cb)
                    : hep::mpi_vegas(vf::current_env()->comm(), hep::make_integrand<T>(pfn<T>(), 2), calls, fresh(), cb);
    }
    static R serial(R const& like, sz calls, bool dist, E& gen)
    {
        return dist ? hep::vegas_iteration(hep::make_integrand<T>(pfn<T>(), 2, hep::make_dist_params<T>(3, T(0), T(1), "d"), hep::distribution_parameters<T>(2, 2, T(0), T(1), T(0), T(1), "e")), calls, like.pdf(), gen)
                    : hep::vegas_iteration(hep::make_integrand<T>(pfn<T>(), 2), calls, like.pdf(), gen);
    }
    static std::vector<T> adj(R const& r) { return r.adjustment_data(); }
};

// K = 3: multi-channel with 1 random number mapped to 3 coordinates (map_dimensions != dimensions);
// K = 4: multi-channel with a single channel
template <typename T>
struct wide_map
{
    sz channels;
    T operator()(sz channel, std::vector<T> const& rn, std::vector<T>& coords, std::vector<sz> const&, std::vector<T>& dens, hep::multi_channel_map action) const
    {
        if (action == hep::multi_channel_map::calculate_coordinates)
        {
            for (sz k = 0; k != coords.size(); ++k) coords[k] = rn[0] * T(k + 1) / T(coords.size()) * (channel % 2 ? T(0.5) : T(1));
            return T(1);
        }
        for (sz c = 0; c != channels; ++c) dens[c] = (c % 2 ? T(2) : T(1));
        return T(1);
    }
};

template <typename T, typename E, int K> struct wide_kit
{
    using C = hep::multi_channel_chkpt_with_rng<E, T>;
    using R = hep::multi_channel_result<T>;
    static sz channels() { return K == 3 ? 2 : 1; }
    static sz mapdims() { return K == 3 ? 3 : 1; }
    static C fresh() { E g; g.seed(5); return hep::make_multi_channel_chkpt<T, E>(T(0.01L), T(0.5), g); }
    template <typename CB> static C mpi(std::vector<sz> const& calls, bool dist, CB cb)
    {
        return dist ? hep::mpi_multi_channel(vf::current_env()->comm(), hep::make_multi_channel_integrand<T>(pfn<T>(), 1, wide_map<T>{channels()}, mapdims(), channels(), hep::make_dist_params<T>(3, T(0), T(1), "d"), hep::distribution_parameters<T>(2, 2, T(0), T(1), T(0), T(1), "e")), calls, fresh(), cb)
                    : hep::mpi_multi_channel(vf::current_env()->comm(), hep::make_multi_channel_integrand<T>(pfn<T>(), 1, wide_map<T>{channels()}, mapdims(), channels()), calls, fresh(), cb);
    }
    static R serial(R const& like, sz calls, bool dist, E& gen)
    {
        return dist ? hep::multi_channel_iteration(hep::make_multi_channel_integrand<T>(pfn<T>(), 1, wide_map<T>{channels()}, mapdims(), channels(), hep::make_dist_params<T>(3, T(0), T(1), "d"), hep::distribution_parameters<T>(2, 2, T(0), T(1), T(0), T(1), "e")), calls, like.channel_weights(), gen)
                    : hep::multi_channel_iteration(hep::make_multi_channel_integrand<T>(pfn<T>(), 1, wide_map<T>{channels()}, mapdims(), channels()), calls, like.channel_weights(), gen);
    }
    static std::vector<T> adj(R const& r) { return r.adjustment_data(); }
};
template <typename T, typename E> struct kit<T, E, 3> : wide_kit<T, E, 3> {};
template <typename T, typename E> struct kit<T, E, 4> : wide_kit<T, E, 4> {};

template <typename T, typename E> struct kit<T, E, 2>
{
    using C = hep::multi_channel_chkpt_with_rng<E, T>;
    using R = hep::multi_channel_result<T>;
    static C fresh() { E g; g.seed(5); return hep::make_multi_channel_chkpt<T, E>(std::vector<T>{T(1), T(0), T(2)}, T(0.01L), T(0.5), g); }
    static sz numbers() { return 2; }   // one coordinate + the channel
    static vf::pl_map<T> map() { vf::pl_map<T> m; m.split = {T(0.25), T(0.5), T(0.75)}; return m; }
    template <typename CB> static C mpi(std::vector<sz> const& calls, bool dist, CB cb)
    {
        return dist ? hep::mpi_multi_channel(vf::current_env()->comm(), hep::make_multi_channel_integrand<T>(pfn<T>(), 1, map(), 1, 3, hep::make_dist_params<T>(3, T(0), T(1), "d"), hep::distribution_parameters<T>(2, 2, T(0), T(1), T(0), T(1), "e")), calls, fresh(), cb)
                    : hep::mpi_multi_channel(vf::current_env()->comm(), hep::make_multi_channel_integrand<T>(pfn<T>(), 1, map(), 1, 3), calls, fresh(), cb);
    }
    static R serial(R const& like, sz calls, bool dist, E& gen)
    {
        return dist ? hep::multi_channel_iteration(hep::make_multi_channel_integrand<T>(pfn<T>(), 1, map(), 1, 3, hep::make_dist_params<T>(3, T(0), T(1), "d"), hep::distribution_parameters<T>(2, 2, T(0), T(1), T(0), T(1), "e")), calls, like.channel_weights(), gen)
                    : hep::multi_channel_iteration(hep::make_multi_channel_integrand<T>(pfn<T>(), 1, map(), 1, 3), calls, like.channel_weights(), gen);
    }
    static std::vector<T> adj(R const& r) { return r.adjustment_data(); }
};

struct exec_out
{
    std::vector<std::vector<std::string>> logs;     // per rank
    std::vector<std::vector<sz>> bounds;            // per rank
    std::vector<std::string> texts;                 // per rank
};

template <typename T, typename E, int K>
struct runner
{
    using Kt = kit<T, E, K>;
    using C = typename Kt::C;
    report& r;
    std::string id;
    std::vector<sz> calls;
    bool dist;
    T target;
    int world;
    bool exact;
    std::uint64_t executions = 0, orders = 0;

    // one complete execution with the given reduction results already chosen is checked here
    void check(C const& chk, exec_out const& out)
    {
        r.validated();
        for (int k = 1; k < world; ++k)
            if (out.texts[k] != out.texts[0]) { r.violate("ranks-return-different-checkpoints", id, id + ": rank " + std::to_string(k) + " differs from rank 0: " + vf::first_difference(out.texts[k], out.texts[0])); return; }
        sz const performed = chk.results().size();
        // expected number of iterations: the documented stop rule applied to the reduced results
        sz expect = calls.size();
        if (target > T())
        {
            for (sz k = 1; k <= calls.size() && k <= performed; ++k)
            {
                C prefix = chk; prefix.rollback(k);
                std::ostringstream sink; std::streambuf* const old = std::cout.rdbuf(sink.rdbuf());
                bool const more = hep::callback<C>(hep::callback_mode::silent, "", target)(prefix);
                std::cout.rdbuf(old);
                if (!more) { expect = k; break; }
            }
        }
        if (performed != expect) { r.violate("wrong-number-of-iterations", id, id + ": " + std::to_string(performed) + " iterations performed, expected " + std::to_string(expect)); return; }
        // serial reference, iteration by iteration, from the recorded state and the serial generator
        E gen; gen.seed(5);
        C serial_chk = Kt::fresh();
        for (sz k = 0; k != performed; ++k)
        {
            g_log.clear();
            auto const sres = Kt::serial(chk.results()[k], calls[k], dist, gen);
            std::vector<std::string> const slog = g_log;
            // concatenate the per-rank logs of iteration k in rank order
            std::vector<std::string> mlog;
            sz mn = ~sz(0), mx = 0;
            for (int rk = 0; rk != world; ++rk)
            {
                if (out.bounds[rk].size() != performed) { r.violate("callback-invocations", id, id + ": rank " + std::to_string(rk) + " invoked the callback " + std::to_string(out.bounds[rk].size()) + " times"); return; }
                sz const from = k == 0 ? 0 : out.bounds[rk][k - 1], to = out.bounds[rk][k];
                mn = std::min(mn, to - from); mx = std::max(mx, to - from);
                for (sz i = from; i != to; ++i) mlog.push_back(out.logs[rk][i]);
            }
            if (mlog.size() != calls[k]) { r.violate("points-not-tiled", id, id + ": iteration " + std::to_string(k) + ": ranks evaluated " + std::to_string(mlog.size()) + " points in total, requested " + std::to_string(calls[k])); return; }
            if (mx - mn > 1) { r.violate("points-not-tiled", id, id + ": iteration " + std::to_string(k) + ": per-rank call counts differ by " + std::to_string(mx - mn)); return; }
            for (sz i = 0; i != slog.size(); ++i)
                if (mlog[i] != slog[i]) { r.violate("points-differ-from-serial", id, id + ": iteration " + std::to_string(k) + " point " + std::to_string(i) + ": ranks saw [" + mlog[i] + "], the serial iteration samples [" + slog[i] + "]"); return; }
            auto const& mres = chk.results()[k];
            if (mres.calls() != sres.calls() || mres.non_zero_calls() != sres.non_zero_calls() || mres.finite_calls() != sres.finite_calls())
            { r.violate("counters-differ-from-serial", id, id + ": iteration " + std::to_string(k) + ": counters " + std::to_string(mres.calls()) + "/" + std::to_string(mres.non_zero_calls()) + "/" + std::to_string(mres.finite_calls())
                + " serial " + std::to_string(sres.calls()) + "/" + std::to_string(sres.non_zero_calls()) + "/" + std::to_string(sres.finite_calls())); return; }
            L const eps = std::numeric_limits<T>::epsilon();
            auto close = [&](T a, T b, L scale, char const* what) {
                if (exact && k == 0) { if (!vf::same_bits(a, b)) { r.violate(std::string("sums-differ-from-serial/") + what, id, id + ": iteration " + std::to_string(k) + " " + what + " " + vf::dec(a) + " serial " + vf::dec(b) + " (exact arithmetic: must be identical)"); return false; } return true; }
                if (!(std::fabs(L(a) - L(b)) <= (world + 4) * eps * scale)) { r.violate(std::string("sums-differ-from-serial/") + what, id, id + ": iteration " + std::to_string(k) + " " + what + " " + vf::dec(a) + " serial " + vf::dec(b)); return false; }
                return true;
            };
            // sum of |f w| is bounded by sqrt(N sumsq)
            L const s1 = std::sqrt(L(sres.sum_of_squares()) * std::max<sz>(1, sres.calls())), s2 = sres.sum_of_squares();
            if (!close(mres.sum(), sres.sum(), s1, "sum")) return;
            if (!close(mres.sum_of_squares(), sres.sum_of_squares(), s2, "sum_of_squares")) return;
            auto const ma = Kt::adj(mres), sa = Kt::adj(sres);
            if (ma.size() != sa.size()) { r.violate("adjustment-data-size", id, id); return; }
            L amax = 0; for (T v : sa) amax = std::max(amax, L(v));
            for (sz i = 0; i != sa.size(); ++i) if (!close(ma[i], sa[i], amax, "adjustment_data")) return;
            if (mres.distributions().size() != sres.distributions().size()) { r.violate("distribution-shape", id, id); return; }
            for (sz d = 0; d != sres.distributions().size(); ++d)
                for (sz b = 0; b != sres.distributions()[d].results().size(); ++b)
                {
                    auto const& mb = mres.distributions()[d].results()[b];
                    auto const& sb = sres.distributions()[d].results()[b];
                    if (mb.calls() != sb.calls() || mb.non_zero_calls() != sb.non_zero_calls() || mb.finite_calls() != sb.finite_calls())
                    { r.violate("counters-differ-from-serial", id, id + ": iteration " + std::to_string(k) + " distribution bin " + std::to_string(b) + " counters"); return; }
                    if (!close(mb.sum(), sb.sum(), 3 * s1, "bin-sum")) return;
                    if (!close(mb.sum_of_squares(), sb.sum_of_squares(), 9 * s2, "bin-sum_of_squares")) return;
                }
            serial_chk.add(mres, gen);
        }
        // the generators stored after each iteration are the serial ones
        if (text_of(serial_chk) != out.texts[0])
            r.violate("stored-generator-differs-from-serial", id, id + ": " + vf::first_difference(out.texts[0], text_of(serial_chk)));
    }

    // executes all ranks with the chosen results; returns the step
    vf::mpi_env::step advance(vf::mpi_env& env, std::vector<vf::bytes> const& results, exec_out& out, C& chk0)
    {
        out.logs.assign(world, {}); out.bounds.assign(world, {}); out.texts.assign(world, "");
        return env.advance(results, [&](int rank) {
            g_log.clear(); g_bounds.clear();
            std::string const file = "build/out/tmp/c04_unused";
            // with a target the run uses the verbose mode (printing is captured per rank): the stop decision must be
            // the same on every rank whatever the mode
            C c = Kt::mpi(calls, dist, bound_cb<C>{hep::mpi_callback<C>(target > T() ? hep::callback_mode::verbose : hep::callback_mode::silent, file, target)});
            out.logs[rank] = g_log; out.bounds[rank] = g_bounds; out.texts[rank] = text_of(c);
            if (rank == 0) chk0 = c;
        });
    }

    void explore(vf::mpi_env& env, std::vector<vf::bytes>& results, int order_mode)
    {
        exec_out out;
        C chk0 = Kt::fresh();
        auto st = advance(env, results, out, chk0);
        ++executions;
        r.transition();
        if (st.error) { r.violate(st.what.compare(0, 4, "hang") == 0 ? "hang" : "mpi-run-failed", id, id + ": " + st.what); return; }
        if (st.finished) { r.state(); check(chk0, out); return; }
        std::vector<vf::bytes> choices;
        if (order_mode < 0)
        {
            std::size_t n = 0;
            choices = vf::all_reductions(st.contrib, st.sig, n);
            orders += n;
            r.outcome("distinct reduction results", vf::fnv1a(choices[0].data(), choices[0].size(), choices.size()));
            if (choices.size() > 1) r.count("collectives_with_order_dependent_result");
        }
        else
        {
            std::vector<int> order(world);
            for (int i = 0; i != world; ++i) order[i] = order_mode == 1 ? world - 1 - i : i;
            choices.push_back(order_mode == 2 ? vf::reduce_tree(st.contrib, st.sig, 0, world) : vf::reduce_fold(st.contrib, st.sig, order));
            ++orders;
        }
        for (auto const& ch : choices)
        {
            results.push_back(ch);
            explore(env, results, order_mode);
            results.pop_back();
            if (r.violation_count() > 50) return;
        }
    }
};

template <typename T, typename E, int K>
static void configs(report& r, bool thorough)
{
    std::string const base = std::string(vf::type_name<T>()) + " " + vf::engine_name<E>() + " kind=" + std::to_string(K);
    if (!r.want_prefix(base.substr(0, std::min(base.size(), r.a().replay_case.size())))) return;
    std::vector<std::vector<sz>> const lists = {{0}, {1}, {2}, {3}, {5}, {7, 3}, {4, 4, 4}, {2, 0, 5}, {1, 1, 1, 1}, {33}, {64, 31}};
    std::vector<int> worlds_full = {1, 2, 3};
    if (thorough) worlds_full.push_back(4);
    std::vector<int> worlds_canon;
    if (thorough) for (int p = 1; p <= 33; ++p) worlds_canon.push_back(p);
    else worlds_canon = {4, 5, 8, 16, 33};
    for (int fn = 0; fn != 3; ++fn)
    for (int dist = 0; dist != 2; ++dist)
    for (sz li = 0; li != lists.size(); ++li)
    for (int tgt = 0; tgt != 2; ++tgt)
    {
        if (tgt == 1 && lists[li].size() < 3) continue;
        if (K >= 3 && ((dist == 1 && K == 4) || tgt == 1 || fn != 1 || li % 2 == 0)) continue;    // the two extra multi-channel shapes: a subset
        if (fn == 2 && (tgt == 1 || li % 2 == 1)) continue;                            // non-finite values: half of the lists, no target
        T const target = tgt ? T(0.35L) : T();
        auto run_world = [&](int world, int order_mode) {
            std::string const id = base + " fn=" + std::to_string(fn) + " dist=" + std::to_string(dist) + " calls=" + vf::join(lists[li]) + " target=" + std::to_string(tgt)
                + " P=" + std::to_string(world) + " orders=" + (order_mode < 0 ? "all" : std::to_string(order_mode));
            if (!r.want(id)) return;
            r.eval();
            g_fn = fn;
            runner<T, E, K> rn{r, id, lists[li], dist != 0, target, world, fn == 0 && K < 2};
            vf::mpi_env env(world);
            env.subgroup = (li + world) % 2 == 1;     // half of the configurations run on a sub-communicator of a larger world
            std::vector<vf::bytes> results;
            rn.explore(env, results, order_mode);
            r.count("executions", rn.executions);
            r.count("reduction_orders_covered", rn.orders);
            if (world > 1) r.distinct(vf::hash_str(id));
            if (r.wants_sample() && world == 3 && lists[li].size() == 3 && fn == 1) r.sample(id + ": " + std::to_string(rn.executions) + " executions, " + std::to_string(rn.orders) + " reduction orders");
        };
        for (int w : worlds_full) run_world(w, -1);
        for (int w : worlds_canon) { if (w <= 3 || (thorough && w == 4)) continue; for (int om = 0; om != 3; ++om) run_world(w, om); }
        if (r.deadline_hit()) return;
    }
}

template <typename T, typename E>
static void engine(report& r)
{
    bool const th = r.a().thorough();
    configs<T, E, 0>(r, th);
    configs<T, E, 1>(r, th);
    configs<T, E, 2>(r, th);
    configs<T, E, 3>(r, th);
    configs<T, E, 4>(r, th);
}

// parts: type = part % 3, engine group = part / 3
template <typename T>
static void for_type(report& r, int group)
{
    if (!r.want_prefix(vf::type_name<T>())) return;
#if !defined(VF_PART) || VF_PART / 3 == 0
    if (group < 0 || group == 0) { engine<T, vf::script_engine>(r); engine<T, std::mt19937>(r); }
#endif
#if !defined(VF_PART) || VF_PART / 3 == 1
    if (group < 0 || group == 1) { engine<T, std::ranlux24>(r); engine<T, std::minstd_rand>(r); }
#endif
}


int main(int argc, char** argv)
{
    auto const a = vf::parse_args(argc, argv);
    report r(a);
    r.set_case_timeout(120);
    vf::script_engine::table().clear();
    vf::script_engine::salt() = 404;
#ifdef VF_PART
    int const type = VF_PART % 3, group = VF_PART / 3;
#else
    int const type = -1, group = -1;
#endif
#if !defined(VF_PART) || VF_PART % 3 == 0
    if (type < 0 || type == 0) for_type<float>(r, group);
#endif
#if !defined(VF_PART) || VF_PART % 3 == 1
    if (type < 0 || type == 1) for_type<double>(r, group);
#endif
#if !defined(VF_PART) || VF_PART % 3 == 2
    if (type < 0 || type == 2) for_type<long double>(r, group);
#endif
    return r.finish();
}
