// C05 — the checkpoint text format is lossless.
//  1. number codec per writing site: structured bit-pattern alphabets (every exponent x mantissa
//     patterns, both signs, zeros, denormals, extremes) for three types; thorough: all finite float
//     bit patterns through vegas_pdf and mc_result;
//  2. structure: checkpoints built through the public constructors / add() over alphabets of shapes,
//     counters, names and engines; field-by-field bit equality after text round trip.
#include "common.hpp"
#include "engines.hpp"

#include "hep/mc.hpp"

#include <cmath>
#include <sstream>

using vf::report;
typedef std::size_t sz;

// ---- value alphabets -----------------------------------------------------------------------------

template <typename T> struct bits;
template <> struct bits<float>
{
    static constexpr int frac = 23; static constexpr unsigned maxexp = 254;
    static float make(bool neg, unsigned e, std::uint64_t f)
    {
        std::uint32_t u = (std::uint32_t(neg) << 31) | (std::uint32_t(e) << 23) | std::uint32_t(f & 0x7fffffu);
        float v; std::memcpy(&v, &u, 4); return v;
    }
};
template <> struct bits<double>
{
    static constexpr int frac = 52; static constexpr unsigned maxexp = 2046;
    static double make(bool neg, unsigned e, std::uint64_t f)
    {
        std::uint64_t u = (std::uint64_t(neg) << 63) | (std::uint64_t(e) << 52) | (f & 0xfffffffffffffULL);
        double v; std::memcpy(&v, &u, 8); return v;
    }
};
template <> struct bits<long double>
{
    static constexpr int frac = 63; static constexpr unsigned maxexp = 32766;
    static long double make(bool neg, unsigned e, std::uint64_t f)
    {
        // x87 extended: explicit integer bit is set for normal numbers, clear for denormals
        std::uint64_t const m = (f & 0x7fffffffffffffffULL) | (e ? 0x8000000000000000ULL : 0);
        std::uint16_t const se = std::uint16_t((neg ? 0x8000u : 0u) | e);
        long double v = 0;
        std::memcpy(&v, &m, 8);
        std::memcpy(reinterpret_cast<unsigned char*>(&v) + 8, &se, 2);
        return v;
    }
};

template <typename T, typename F>
static void for_each_structured(unsigned exp_step, F&& f)
{
    int const m = bits<T>::frac;
    std::uint64_t const all = (m == 63) ? 0x7fffffffffffffffULL : ((std::uint64_t(1) << m) - 1);
    std::vector<std::uint64_t> mant = {0, 1, all, 0x5555555555555555ULL & all, 0xAAAAAAAAAAAAAAAAULL & all};
    for (int b = 1; b < m; ++b) mant.push_back(std::uint64_t(1) << b);
    for (unsigned e = 0; e <= bits<T>::maxexp; ++e)
    {
        bool const take = e % exp_step == 0 || e < 4 || e + 4 > bits<T>::maxexp
            || (e + 70 > bits<T>::maxexp / 2 && e < bits<T>::maxexp / 2 + 70);
        if (!take) continue;
        for (std::uint64_t fr : mant) { f(bits<T>::make(false, e, fr)); f(bits<T>::make(true, e, fr)); }
    }
}

// ---- site codecs: write a batch of values through one serialize() site and read it back ---------------

template <typename T>
static std::string show_bits(T v) { return vf::hexf(v) + " (" + vf::dec(v) + ")"; }

template <typename T>
static void compare_batch(report& r, char const* site, std::vector<T> const& in, std::vector<T> const& out, bool stream_ok,
    std::string const& id)
{
    r.eval(in.size());
    if (!stream_ok) { r.violate(std::string("stream-failed/") + site, id, std::string(vf::type_name<T>()) + " " + site + ": stream failed while reading back a batch starting at " + show_bits(in[0])); return; }
    for (sz i = 0; i != in.size(); ++i)
    {
        if (!vf::same_bits(in[i], out[i]))
        {
            r.violate(std::string("value-changed/") + site, id, std::string(vf::type_name<T>()) + " " + site + ": wrote " + show_bits(in[i]) + ", read back " + show_bits(out[i]));
            return;
        }
    }
}

template <typename T>
static hep::plain_result<T> plain_of(sz calls = 5)
{
    return hep::plain_result<T>(std::vector<hep::distribution_result<T>>(), calls, 3, 2, T(1), T(2));
}

// all sites for one batch (size >= 2, even)
template <typename T>
static void sites(report& r, std::vector<T> const& v, std::string const& id, bool single_value_sites)
{
    sz const n = v.size();
    {   // vegas_pdf
        hep::vegas_pdf<T> pdf(1, n - 1);
        for (sz i = 0; i != n; ++i) pdf.set_bin_left(0, i, v[i]);
        std::stringstream s; pdf.serialize(s);
        hep::vegas_pdf<T> back(s);
        std::vector<T> out(n);
        bool ok = !s.fail() && back.bins() == n - 1 && back.dimensions() == 1;
        for (sz i = 0; ok && i != n; ++i) out[i] = back.bin_left(0, i);
        compare_batch(r, "vegas_pdf", v, out, ok, id);
    }
    for (sz dims : {sz(3), sz(4)})
    {   // vegas_pdf with several dimensions: every boundary must come back in its own dimension
        sz const bins = n / dims - 1;
        if (bins < 1) break;
        hep::vegas_pdf<T> pdf(dims, bins);
        std::vector<T> in;
        for (sz d = 0; d != dims; ++d) for (sz i = 0; i <= bins; ++i) { pdf.set_bin_left(d, i, v[d * (bins + 1) + i]); in.push_back(v[d * (bins + 1) + i]); }
        std::stringstream s; pdf.serialize(s);
        hep::vegas_pdf<T> back(s);
        std::vector<T> out;
        bool ok = !s.fail() && back.bins() == bins && back.dimensions() == dims;
        for (sz d = 0; ok && d != dims; ++d) for (sz i = 0; i <= bins; ++i) out.push_back(back.bin_left(d, i));
        compare_batch(r, dims == 3 ? "vegas_pdf(3 dimensions)" : "vegas_pdf(4 dimensions)", in, out, ok, id);
    }
    {   // mc_result sum / sum_of_squares
        std::stringstream s;
        for (sz i = 0; i + 1 < n; i += 2) { hep::mc_result<T>(7, 6, 5, v[i], v[i + 1]).serialize(s); s << '\n'; }
        std::vector<T> out;
        bool ok = true;
        for (sz i = 0; i + 1 < n; i += 2)
        {
            hep::mc_result<T> back(s);
            ok = ok && !s.fail() && back.calls() == 7 && back.non_zero_calls() == 6 && back.finite_calls() == 5;
            out.push_back(back.sum()); out.push_back(back.sum_of_squares());
        }
        compare_batch(r, "mc_result", std::vector<T>(v.begin(), v.begin() + out.size()), out, ok, id);
    }
    {   // vegas_result adjustment data
        hep::vegas_result<T> res(plain_of<T>(), hep::vegas_pdf<T>(1, n), v);
        std::stringstream s; res.serialize(s);
        hep::vegas_result<T> back(s);
        compare_batch(r, "vegas_result.adjustment_data", v, back.adjustment_data(), !s.fail() && back.adjustment_data().size() == n, id);
    }
    {   // multi_channel_result adjustment data and weights
        std::vector<T> a(v.begin(), v.begin() + n / 2), w(v.begin() + n / 2, v.begin() + 2 * (n / 2));
        hep::multi_channel_result<T> res(plain_of<T>(), a, w);
        std::stringstream s; res.serialize(s);
        hep::multi_channel_result<T> back(s);
        bool const ok = !s.fail() && back.adjustment_data().size() == a.size() && back.channel_weights().size() == w.size();
        compare_batch(r, "multi_channel_result.adjustment_data", a, back.adjustment_data(), ok, id);
        compare_batch(r, "multi_channel_result.channel_weights", w, back.channel_weights(), ok, id);
    }
    if (!single_value_sites) return;
    for (sz i = 0; i + 1 < n; i += 2)
    {
        {   // vegas_chkpt alpha
            hep::vegas_chkpt<T> c(hep::vegas_pdf<T>(1, 2), v[i]);
            std::stringstream s; c.serialize(s);
            hep::vegas_chkpt<T> back(s);
            compare_batch(r, "vegas_chkpt.alpha", std::vector<T>{v[i]}, std::vector<T>{back.alpha()}, !s.fail(), id);
        }
        {   // multi_channel_chkpt beta / min_weight
            hep::multi_channel_chkpt<T> c(v[i], v[i + 1]);
            std::stringstream s; c.serialize(s);
            hep::multi_channel_chkpt<T> back(s);
            compare_batch(r, "multi_channel_chkpt.min_weight/beta", std::vector<T>{v[i], v[i + 1]},
                std::vector<T>{back.min_weight(), back.beta()}, !s.fail(), id);
        }
        {   // distribution parameters: x_min, bin_size_x, y_min, bin_size_y
            hep::distribution_parameters<T> p1(1, 1, v[i], v[i], v[i + 1], v[i + 1], "n");      // mins
            hep::distribution_parameters<T> p2(1, 1, T(), v[i], T(), v[i + 1], "n");            // sizes
            for (auto const& p : {p1, p2})
            {
                std::stringstream s; p.serialize(s);
                hep::distribution_parameters<T> back(s);
                compare_batch(r, "distribution_parameters", std::vector<T>{p.x_min(), p.bin_size_x(), p.y_min(), p.bin_size_y()},
                    std::vector<T>{back.x_min(), back.bin_size_x(), back.y_min(), back.bin_size_y()},
                    !s.fail() && back.name() == "n" && back.bins_x() == 1 && back.bins_y() == 1, id);
            }
        }
    }
}

template <typename T>
static void codec(report& r, unsigned exp_step)
{
    std::string const tn = vf::type_name<T>();
    std::vector<T> batch;
    sz count = 0, batches = 0;
    auto flush = [&]() {
        if (batch.size() < 2) return;
        if (batch.size() % 2) batch.push_back(batch.back());
        std::string const id = tn + " codec batch=" + std::to_string(batches);
        if (r.want(id)) sites<T>(r, batch, id, true);
        ++batches;
        batch.clear();
    };
    for_each_structured<T>(exp_step, [&](T v) {
        batch.push_back(v);
        r.distinct(vf::hash_val(v, 77 + sizeof(T)));
        ++count;
        if (batch.size() == 128) flush();
    });
    flush();
    r.count("structured_values_" + tn, count);
}

// every finite float bit pattern (thorough), sharded
static void float_sweep(report& r)
{
    std::uint64_t const chunk = 1024;
    std::uint64_t const chunks = (std::uint64_t(1) << 32) / chunk;
    for (std::uint64_t c = r.a().shard; c < chunks; c += r.a().nshards)
    {
        std::string const id = "float sweep chunk=" + std::to_string(c);
        if (!r.want(id)) continue;
        std::vector<float> v;
        v.reserve(chunk);
        for (std::uint64_t k = 0; k != chunk; ++k)
        {
            std::uint32_t const u = std::uint32_t(c * chunk + k);
            float f; std::memcpy(&f, &u, 4);
            if (std::isfinite(f)) v.push_back(f);
        }
        if (v.size() < 2) continue;
        if (v.size() % 2) v.push_back(v.back());
        sites<float>(r, v, id, false);
        r.count("float_bit_patterns", v.size());
        if ((c & 1023) == 0 && r.deadline_hit()) return;
    }
}

// ---- structure ---------------------------------------------------------------------------------------

template <typename T>
static bool eq(T a, T b) { return vf::same_bits(a, b); }

template <typename T>
static std::string diff_mc(hep::mc_result<T> const& a, hep::mc_result<T> const& b)
{
    if (a.calls() != b.calls()) return "calls";
    if (a.non_zero_calls() != b.non_zero_calls()) return "non_zero_calls";
    if (a.finite_calls() != b.finite_calls()) return "finite_calls";
    if (!eq(a.sum(), b.sum())) return "sum";
    if (!eq(a.sum_of_squares(), b.sum_of_squares())) return "sum_of_squares";
    return "";
}

template <typename T>
static std::string diff_plain(hep::plain_result<T> const& a, hep::plain_result<T> const& b)
{
    std::string d = diff_mc<T>(a, b);
    if (!d.empty()) return d;
    if (a.distributions().size() != b.distributions().size()) return "number of distributions";
    for (sz i = 0; i != a.distributions().size(); ++i)
    {
        auto const& p = a.distributions()[i].parameters();
        auto const& q = b.distributions()[i].parameters();
        if (p.name() != q.name()) return "distribution name ('" + p.name() + "' became '" + q.name() + "')";
        if (p.bins_x() != q.bins_x() || p.bins_y() != q.bins_y()) return "distribution bins";
        if (!eq(p.x_min(), q.x_min()) || !eq(p.y_min(), q.y_min()) || !eq(p.bin_size_x(), q.bin_size_x()) || !eq(p.bin_size_y(), q.bin_size_y()))
            return "distribution range";
        auto const& ra = a.distributions()[i].results();
        auto const& rb = b.distributions()[i].results();
        if (ra.size() != rb.size()) return "number of bins";
        for (sz k = 0; k != ra.size(); ++k) { d = diff_mc<T>(ra[k], rb[k]); if (!d.empty()) return "bin " + std::to_string(k) + " " + d; }
    }
    return "";
}

template <typename T>
static std::string diff_pdf(hep::vegas_pdf<T> const& a, hep::vegas_pdf<T> const& b)
{
    if (a.bins() != b.bins() || a.dimensions() != b.dimensions()) return "pdf shape";
    for (sz d = 0; d != a.dimensions(); ++d) for (sz i = 0; i <= a.bins(); ++i) if (!eq(a.bin_left(d, i), b.bin_left(d, i))) return "pdf boundary";
    return "";
}

template <typename T>
static std::string diff_result(hep::plain_result<T> const& a, hep::plain_result<T> const& b) { return diff_plain<T>(a, b); }

template <typename T>
static std::string diff_result(hep::vegas_result<T> const& a, hep::vegas_result<T> const& b)
{
    std::string d = diff_plain<T>(a, b);
    if (!d.empty()) return d;
    d = diff_pdf<T>(a.pdf(), b.pdf());
    if (!d.empty()) return d;
    if (a.adjustment_data().size() != b.adjustment_data().size()) return "adjustment data size";
    for (sz i = 0; i != a.adjustment_data().size(); ++i) if (!eq(a.adjustment_data()[i], b.adjustment_data()[i])) return "adjustment data";
    return "";
}

template <typename T>
static std::string diff_result(hep::multi_channel_result<T> const& a, hep::multi_channel_result<T> const& b)
{
    std::string d = diff_plain<T>(a, b);
    if (!d.empty()) return d;
    if (a.adjustment_data().size() != b.adjustment_data().size() || a.channel_weights().size() != b.channel_weights().size()) return "channel count";
    for (sz i = 0; i != a.adjustment_data().size(); ++i)
        if (!eq(a.adjustment_data()[i], b.adjustment_data()[i]) || !eq(a.channel_weights()[i], b.channel_weights()[i])) return "channel data";
    return "";
}

template <typename T, typename C> static std::string diff_extra(hep::chkpt<hep::plain_result<T>> const&, C const&, C const&) { return ""; }
template <typename T, typename C> static std::string diff_extra(hep::vegas_chkpt<T> const&, C const& a, C const& b)
{
    if (!eq(a.alpha(), b.alpha())) return "alpha";
    return diff_pdf<T>(a.pdf(), b.pdf());
}
template <typename T, typename C> static std::string diff_extra(hep::multi_channel_chkpt<T> const&, C const& a, C const& b)
{
    if (!eq(a.beta(), b.beta())) return "beta";
    if (!eq(a.min_weight(), b.min_weight())) return "min_weight";
    auto const wa = a.channel_weights(), wb = b.channel_weights();
    if (wa.size() != wb.size()) return "number of channel weights";
    for (sz i = 0; i != wa.size(); ++i) if (!eq(wa[i], wb[i]) && !(std::isnan(wa[i]) && std::isnan(wb[i]))) return "channel weights for the next iteration";
    return "";
}

// the stored generators, for checkpoint types that have them (the base types plain_chkpt<T>, vegas_chkpt<T> and
// multi_channel_chkpt<T> are checkpoints of their own right, without generators)
template <typename C>
static auto diff_generator(C const& chk, C const& back, int) -> decltype(chk.generator(), std::string())
{
    auto g1 = chk.generator(), g2 = back.generator();
    if (!(g1 == g2)) return "generator";
    for (int k = 0; k != 32; ++k) if (g1() != g2()) return "generator output";
    return "";
}
template <typename C>
static std::string diff_generator(C const&, C const&, long) { return ""; }

// round trip of one checkpoint object; `make_back` constructs the same type from a stream
template <typename C, typename Back>
static void round_trip(report& r, C const& chk, Back&& make_back, std::string const& id)
{
    r.eval();
    std::ostringstream out;
    chk.serialize(out);
    std::istringstream in(out.str());
    std::string d;
    C back = chk;
    try { back = make_back(in); }
    catch (std::exception const& e) { d = std::string("reader threw (") + e.what() + ")"; }
    if (d.empty() && in.fail()) d = "stream failed";
    if (d.empty())
    {
        in >> std::ws;
        if (in.peek() != std::istringstream::traits_type::eof()) d = "unread text left in the stream";
    }
    if (d.empty() && chk.results().size() != back.results().size()) d = "number of results";
    for (sz i = 0; d.empty() && i != chk.results().size(); ++i)
    {
        d = diff_result(chk.results()[i], back.results()[i]);
        if (!d.empty()) d = "result " + std::to_string(i) + ": " + d;
    }
    if (d.empty()) d = diff_extra(chk, chk, back);
    if (d.empty()) d = diff_generator(chk, back, 0);
    if (d.empty())
    {
        std::ostringstream again;
        back.serialize(again);
        if (again.str() != out.str()) d = "re-serialised text differs (a stored generator or field changed)";
    }
    if (!d.empty())
    {
        std::string key = d.substr(0, d.find(" ("));
        if (key.compare(0, 7, "result ") == 0) key = key.substr(key.find(": ") + 2);
        for (auto& ch : key) if (ch == ' ') ch = '-';
        r.violate("field-differs/" + key, id, id + ": after text round trip: " + d + "\n--- text ---\n" + out.str().substr(0, 600));
    }
}

template <typename T>
static std::vector<hep::distribution_result<T>> make_dists(sz ndist, sz bx, sz by, std::string const& name, sz counter)
{
    std::vector<hep::distribution_result<T>> ds;
    for (sz d = 0; d != ndist; ++d)
    {
        std::vector<hep::mc_result<T>> bins;
        for (sz k = 0; k != bx * by; ++k) bins.emplace_back(counter, k + d, k, T(0.1L) * T(k + 1), T(1) / T(3) + T(k));
        ds.emplace_back(hep::distribution_parameters<T>(bx, by, T(-1) / T(3), T(2.5L), T(0.1L), T(7), d == 0 ? name : name + "2"), bins);
    }
    return ds;
}

template <typename T, typename E>
static void structure(report& r)
{
    std::string const base = std::string(vf::type_name<T>()) + " " + vf::engine_name<E>() + " struct";
    if (!r.want_prefix(base.substr(0, std::min(base.size(), r.a().replay_case.size())))) return;
    std::vector<std::string> const names = {"", " ", "a", " a", "a ", "a b", "#x", "1 2 3", "\t", "  lead  trail  ",
        "m(e,\\nu_e) [GeV]", "\\n", "\\", "tail\\", "C:\\new\\table", "a\r", "%s %d", "\"quoted\""};
    std::vector<sz> const counters = {0, 1, sz(1) << 32, ~sz(0)};
    std::vector<unsigned> const advances = {0, 1, 7, 1000};

    struct shape { sz nres, ndist, bx, by, chan, dims, gbins; sz name, counter, adv; };
    std::vector<shape> shapes;
    shape const def{1, 1, 2, 1, 2, 1, 2, 2, 1, 1};
    // one field at a time over its whole alphabet
    for (sz v = 0; v <= 2; ++v) { shape s = def; s.nres = v; shapes.push_back(s); }
    for (sz v = 0; v <= 2; ++v) { shape s = def; s.ndist = v; shapes.push_back(s); }
    for (sz v = 1; v <= 3; ++v) for (sz w = 1; w <= 2; ++w) { shape s = def; s.bx = v; s.by = w; shapes.push_back(s); }
    for (sz v : {sz(1), sz(2), sz(3), sz(7), sz(9), sz(10), sz(11), sz(12)}) { shape s = def; s.chan = v; shapes.push_back(s); s.nres = 0; shapes.push_back(s); }
    for (sz v = 1; v <= 4; ++v) for (sz w = 2; w <= 3; ++w) { shape s = def; s.dims = v; s.gbins = w; shapes.push_back(s); s.nres = 0; shapes.push_back(s); s.nres = 2; shapes.push_back(s); }
    for (sz v = 0; v != names.size(); ++v) { shape s = def; s.name = v; shapes.push_back(s); s.ndist = 2; s.nres = 2; shapes.push_back(s); }
    for (sz v = 0; v != counters.size(); ++v) { shape s = def; s.counter = v; shapes.push_back(s); }
    for (sz v = 0; v != advances.size(); ++v) { shape s = def; s.adv = v; shapes.push_back(s); s.nres = 2; shapes.push_back(s); s.nres = 0; shapes.push_back(s); }
    // product over the two smallest values of each field
    for (unsigned m = 0; m != 256; ++m)
    {
        shape s{sz(m & 1), sz((m >> 1) & 1), 1 + sz((m >> 2) & 1), 1 + sz((m >> 3) & 1), 1 + sz((m >> 4) & 1), 1 + sz((m >> 5) & 1), 2 + sz((m >> 6) & 1), sz((m >> 7) & 1), 0, 0};
        shapes.push_back(s);
    }

    for (auto const& s : shapes)
    {
        std::string const cfg = " nres=" + std::to_string(s.nres) + " ndist=" + std::to_string(s.ndist) + " bins=" + std::to_string(s.bx) + "x" + std::to_string(s.by)
            + " chan=" + std::to_string(s.chan) + " dims=" + std::to_string(s.dims) + " gbins=" + std::to_string(s.gbins) + " name=" + std::to_string(s.name)
            + " counter=" + std::to_string(s.counter) + " adv=" + std::to_string(s.adv);
        E gen; gen.seed(42);
        gen.discard(advances[s.adv]);
        sz const cnt = counters[s.counter];
        auto next_gen = [&]() { E g = gen; g.discard(3 + advances[s.adv]); gen = g; return g; };

        if (r.want(base + " plain" + cfg))
        {
            auto chk = hep::make_plain_chkpt<T, E>(gen);
            for (sz k = 0; k != s.nres; ++k)
                chk.add(hep::plain_result<T>(make_dists<T>(s.ndist, s.bx, s.by, names[s.name], cnt), cnt, cnt / 2, cnt / 3, T(1) / T(3) + T(k), T(2) / T(7)), next_gen());
            round_trip(r, chk, [](std::istream& in) { return hep::make_plain_chkpt<T, E>(in); }, base + " plain" + cfg);
            // the same checkpoint as its base type (no generators: the text ends with the last result)
            if (std::is_same<E, std::mt19937>::value)
                round_trip(r, hep::plain_chkpt<T>(static_cast<hep::plain_chkpt<T> const&>(chk)), [](std::istream& in) { return hep::plain_chkpt<T>(in); }, base + " plain" + cfg + " base-type");
            if (s.ndist) r.distinct(vf::hash_str(base + " plain" + cfg));
        }
        if (r.want(base + " vegas" + cfg))
        {
            hep::vegas_pdf<T> pdf(s.dims, s.gbins);
            for (sz d = 0; d != s.dims; ++d) pdf.set_bin_left(d, 1, T(1) / T(3 + d));
            auto chk = hep::make_vegas_chkpt<T, E>(pdf, T(1) / T(7), gen);
            for (sz k = 0; k != s.nres; ++k)
            {
                std::vector<T> adj(s.dims * s.gbins);
                for (sz i = 0; i != adj.size(); ++i) adj[i] = T(1) / T(3 + i + k);
                chk.add(hep::vegas_result<T>(hep::plain_result<T>(make_dists<T>(s.ndist, s.bx, s.by, names[s.name], cnt), cnt, cnt / 2, cnt / 3, T(1) / T(3), T(2) / T(7)), pdf, adj), next_gen());
            }
            round_trip(r, chk, [](std::istream& in) { return hep::make_vegas_chkpt<T, E>(in); }, base + " vegas" + cfg);
            if (std::is_same<E, std::mt19937>::value)
                round_trip(r, hep::vegas_chkpt<T>(static_cast<hep::vegas_chkpt<T> const&>(chk)), [](std::istream& in) { return hep::vegas_chkpt<T>(in); }, base + " vegas" + cfg + " base-type");
            r.distinct(vf::hash_str(base + " vegas" + cfg));
        }
        if (r.want(base + " multi_channel" + cfg))
        {
            // normalised these are sevenths / thirds: not representable exactly in any binary type, so a reader that
            // goes through a narrower type is visible
            std::vector<T> w(s.chan);
            for (sz i = 0; i != s.chan; ++i) w[i] = (i == 1 && s.chan > 2) ? T(0) : T(3 + i);
            // three ways to arrive at first weights: user weights, user weights of which one is raised to the floor,
            // and the uniform default (set by channels())
            auto chk = (s.chan % 3 == 0) ? hep::make_multi_channel_chkpt<T, E>(w, T(1) / T(100), T(1) / T(3), gen)
                : (s.chan % 3 == 1 && s.chan > 1) ? [&]() { auto ww = w; ww[0] = T(200); return hep::make_multi_channel_chkpt<T, E>(ww, T(1) / T(20), T(1) / T(3), gen); }()
                : hep::make_multi_channel_chkpt<T, E>(T(1) / T(100), T(1) / T(3), gen);
            chk.channels(s.chan);
            for (sz k = 0; k != s.nres; ++k)
            {
                std::vector<T> adj(s.chan), cw(s.chan);
                for (sz i = 0; i != s.chan; ++i) { adj[i] = T(1) / T(7 + i + k); cw[i] = T(1) / T(s.chan) + T(i) * std::numeric_limits<T>::epsilon(); }
                chk.add(hep::multi_channel_result<T>(hep::plain_result<T>(make_dists<T>(s.ndist, s.bx, s.by, names[s.name], cnt), cnt, cnt / 2, cnt / 3, T(1) / T(3), T(2) / T(7)), adj, cw), next_gen());
            }
            round_trip(r, chk, [](std::istream& in) { return hep::make_multi_channel_chkpt<T, E>(in); }, base + " multi_channel" + cfg);
            if (std::is_same<E, std::mt19937>::value)
                round_trip(r, hep::multi_channel_chkpt<T>(static_cast<hep::multi_channel_chkpt<T> const&>(chk)), [](std::istream& in) { return hep::multi_channel_chkpt<T>(in); }, base + " multi_channel" + cfg + " base-type");
            r.distinct(vf::hash_str(base + " multi_channel" + cfg));
        }
    }
}

template <typename T>
static void for_type(report& r)
{
    std::string const tn = vf::type_name<T>();
    if (!r.want_prefix(tn)) return;
    if (r.want_prefix(tn + " codec"))
    {
        unsigned step = 1;
        if (std::is_same<T, long double>::value && !r.a().thorough()) step = 64;
        codec<T>(r, step);
    }
    structure<T, std::minstd_rand0>(r);
    structure<T, std::minstd_rand>(r);
    structure<T, std::mt19937>(r);
    structure<T, std::mt19937_64>(r);
    structure<T, std::ranlux24_base>(r);
    structure<T, std::ranlux48_base>(r);
    structure<T, std::ranlux24>(r);
    structure<T, std::ranlux48>(r);
    structure<T, std::knuth_b>(r);
}

int main(int argc, char** argv)
{
    auto const a = vf::parse_args(argc, argv);
    report r(a);
    // shards 0..2: one numeric type each; in the thorough tier every shard also takes its slice of the
    // full float sweep
#if VF_PART_ENABLED(0)
    if (a.nshards == 1 || a.shard == 0) for_type<float>(r);
#endif
#if VF_PART_ENABLED(1)
    if (a.nshards == 1 || a.shard == 1) for_type<double>(r);
#endif
#if VF_PART_ENABLED(2)
    if (a.nshards == 1 || a.shard == 2) for_type<long double>(r);
#endif
    if (a.thorough() && r.want_prefix("float sweep")) float_sweep(r);
    return r.finish();
}
