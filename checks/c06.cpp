// C06 — non-finite evaluations are counted but never contaminate results or adaptation.
// Fault enumeration with paired runs: for every subset of the 6 sampled points of one iteration
// (each of 3 adaptive iterations) and every assignment of NaN / +inf / -inf (subsets of size <= 4;
// uniform kinds above), coming from the integrand value, from the value handed to a distribution,
// or from the multi-channel weight, the run must equal - counters aside - the run in which the same
// points returned zero; so must the variance-weighted combination of every prefix of the results (what
// the built-in callback reports and bases its stop decision on).
#include "common.hpp"
#include "engines.hpp"
#include "fields.hpp"
#include "mcmodel.hpp"

#include "hep/mc.hpp"

#include <cmath>
#include <map>
#include <set>

using vf::report;
typedef std::size_t sz;

enum source { src_value = 0, src_dist_value = 1, src_weight = 2 };

struct plan
{
    std::map<sz, int> poison;    // global call index -> kind (0 NaN, 1 +inf, 2 -inf, 3 zero densities)
    int src = 0;
    bool paired = false;         // replace the poisoned returns by zero
    sz calls = 0;                // integrand invocations so far
    sz map_calls = 0;            // coordinate evaluations so far (multi-channel)
    // weight faults: whether the product f x w really is non-finite at a poisoned point is observed, not assumed
    // (a library that does not look at the density of a disabled channel has an ordinary point there)
    std::set<sz> observed;       // faulted run: poisoned calls at which f x w was non-finite
    std::set<sz> zero_at;        // paired run: calls that return zero
};

static plan g;
static std::size_t g_disabled = 1;   // index of the disabled channel in the configuration with user weights
static std::size_t g_points = 6;     // sampled points per iteration (8 in the thorough tier)

template <typename T>
static T bad_value(int kind)
{
    switch (kind)
    {
    case 0: return std::numeric_limits<T>::quiet_NaN();
    case 1: return std::numeric_limits<T>::infinity();
    case 3: return std::numeric_limits<T>::max();             // finite, but its product with a weight above 1 is not (value faults only)
    default: return -std::numeric_limits<T>::infinity();
    }
}

template <typename T>
static T base_value(sz index, T x) { return (index % 5 == 3) ? T() : (index % 2 ? T(-0.75) : T(1)) * (T(1) + x); }

template <typename T>
struct fn
{
    // returns (integrand value, value for the distribution); `project` is false where the pair of a faulted
    // point hands nothing to the distributions: a non-finite value "contributes nothing" to a bin, and under
    // compensated summation adding an exact zero is not the same as adding nothing (it can flush the pending
    // compensation into the reported sum, a one-ulp difference that is not a contamination)
    static void values(T x, T& f, T& dv, bool& project)
    {
        sz const index = g.calls++;
        f = base_value<T>(index, x);
        dv = f;
        project = true;
        auto const it = g.poison.find(index);
        if (it == g.poison.end()) return;
        if (g.src == src_value) { f = g.paired ? T() : bad_value<T>(it->second); dv = f; project = !g.paired; }
        else if (g.src == src_dist_value) { dv = g.paired ? T() : bad_value<T>(it->second); project = !g.paired; }
        else
        {
            if (g.paired && g.zero_at.count(index)) { f = T(); dv = T(); project = false; }     // weight fault: the pair returns zero where the product was non-finite
            // a point whose value is zero anyway hands nothing to the distributions in either run (a zero entry times a
            // non-finite weight is dropped, times a finite weight it is an entry: not a difference the property is about)
            if (f == T()) project = false;
        }
    }
    // weight faults: look at the weight of a poisoned point (both runs do, so that the protocol is the same)
    template <typename P> static void observe(P const& p, sz index, T f)
    {
        auto const it = g.poison.find(index);
        if (it == g.poison.end() || !(g.src == src_weight || (g.src == src_value && it->second == 3))) return;
        T const w = p.weight();
        if (!g.paired && f != T() && !std::isfinite(f * w)) g.observed.insert(index);
    }
    T operator()(hep::mc_point<T> const& p) const { sz const index = g.calls; T f, dv; bool pr; values(p.point()[0], f, dv, pr); observe(p, index, g.paired ? bad_value<T>(3) : f); return f; }
    T operator()(hep::mc_point<T> const& p, hep::projector<T>& proj) const
    {
        sz const index = g.calls;
        T f, dv; bool pr; values(p.point()[0], f, dv, pr);
        observe(p, index, g.paired ? bad_value<T>(3) : f);
        if (pr) { proj.add(0, p.point()[0], dv); proj.add(1, p.point()[0], p.point()[1], dv); }
        return f;
    }
    T operator()(hep::multi_channel_point<T> const& p) const { sz const index = g.calls; T f, dv; bool pr; values(p.coordinates()[0], f, dv, pr); observe(p, index, g.paired ? base_value<T>(index, p.coordinates()[0]) : f); return f; }
    T operator()(hep::multi_channel_point<T> const& p, hep::projector<T>& proj) const
    {
        sz const index = g.calls;
        T f, dv; bool pr; values(p.coordinates()[0], f, dv, pr);
        observe(p, index, g.paired ? base_value<T>(index, p.coordinates()[0]) : f);
        if (pr) { proj.add(0, p.coordinates()[0], dv); proj.add(1, p.coordinates()[0], p.point()[0], dv); }
        return f;
    }
};

// channel map whose jacobian / densities are poisoned for chosen calls
template <typename T>
struct faulty_map
{
    vf::pl_map<T> inner;
    T operator()(sz channel, std::vector<T> const& rn, std::vector<T>& coords, std::vector<sz> const& enabled,
        std::vector<T>& dens, hep::multi_channel_map action) const
    {
        if (action == hep::multi_channel_map::calculate_coordinates) { ++g.map_calls; return inner(channel, rn, coords, enabled, dens, action); }
        T j = inner(channel, rn, coords, enabled, dens, action);
        if (g.src == src_weight && !g.paired)
        {
            auto const it = g.poison.find(g.map_calls - 1);
            if (it != g.poison.end())
            {
                if (it->second == 3) { for (auto& d : dens) d = T(); }
                else if (it->second == 4) { dens[g_disabled] = std::numeric_limits<T>::quiet_NaN(); }   // only a disabled channel's density
                else j = bad_value<T>(it->second);
            }
        }
        return j;
    }
};

template <typename T, typename C>
static std::string text_of(C const& c) { std::ostringstream o; c.serialize(o); return o.str(); }

// runs one integrator over 3 iterations of 6 calls; returns canonical description, per-iteration
// non_zero_calls and the serialised text
struct run_out { std::string desc; std::vector<sz> nz; std::string text; std::string cumulative; };

template <typename T>
static run_out run(int kind, bool dist)
{
    g.calls = 0; g.map_calls = 0;
    vf::script_engine::table().clear();
    vf::script_engine::salt() = 606;
    vf::script_engine gen;
    std::vector<sz> const calls = {g_points, g_points, g_points};
    auto dparams = hep::make_dist_params<T>(3, T(0), T(1), "d");
    hep::distribution_parameters<T> dparams2(2, 2, T(0), T(1), T(0), T(1), "d2");
    vf::field_mask mask; mask.non_zero_calls = true; mask.bin_counters = true;
    run_out out;
    auto finish = [&](auto const& chk) {
        out.desc = vf::describe(chk, mask);
        for (auto const& res : chk.results()) out.nz.push_back(res.non_zero_calls());
        out.text = text_of<T>(chk);
        // what the built-in callback reports and bases its stop decision on: the variance-weighted
        // combination of the results so far (every prefix), integrated result and every bin
        std::ostringstream cum;
        for (sz k = 1; k <= chk.results().size(); ++k)
        {
            auto const acc = hep::accumulate<hep::weighted_with_variance>(chk.results().begin(), chk.results().begin() + k);
            cum << "combination of the first " << k << " results:\n";
            vf::describe_plain<T>(cum, acc, mask);
        }
        out.cumulative = cum.str();
    };
    if (kind == 0)
    {
        auto chk = hep::make_plain_chkpt<T, vf::script_engine>(gen);
        chk = dist ? hep::plain(hep::make_integrand<T>(fn<T>(), 2, dparams, dparams2), calls, chk, vf::never_stop())
                   : hep::plain(hep::make_integrand<T>(fn<T>(), 2), calls, chk, vf::never_stop());
        finish(chk);
    }
    else if (kind == 1)
    {
        auto chk = hep::make_vegas_chkpt<T, vf::script_engine>(4, T(1.25), gen);
        chk = dist ? hep::vegas(hep::make_integrand<T>(fn<T>(), 2, dparams, dparams2), calls, chk, vf::never_stop())
                   : hep::vegas(hep::make_integrand<T>(fn<T>(), 2), calls, chk, vf::never_stop());
        finish(chk);
    }
    else
    {
        faulty_map<T> map;
        map.inner.split = {T(0.25), T(0.5), T(0.75)};
        map.inner.dims = 1;
        auto chk = kind == 3 ? hep::make_multi_channel_chkpt<T, vf::script_engine>(std::vector<T>{T(1), T(0), T(2)}, T(0.01L), T(0.5), gen)
                             : hep::make_multi_channel_chkpt<T, vf::script_engine>(T(0.01L), T(0.5), gen);
        chk = dist ? hep::multi_channel(hep::make_multi_channel_integrand<T>(fn<T>(), 1, map, 1, 3, dparams, dparams2), calls, chk, vf::never_stop())
                   : hep::multi_channel(hep::make_multi_channel_integrand<T>(fn<T>(), 1, map, 1, 3), calls, chk, vf::never_stop());
        finish(chk);
    }
    return out;
}

static bool non_finite_text(std::string s)
{
    for (auto& ch : s) ch = std::tolower(ch);
    return s.find("nan") != std::string::npos || s.find("inf") != std::string::npos;
}

template <typename T>
static void enumerate(report& r)
{
    std::string const tn = vf::type_name<T>();
    for (int kind = 0; kind != 4; ++kind)      // 3: multi-channel with user weights, one channel disabled
    for (int src = 0; src != 3; ++src)
    for (int dist = 0; dist != 2; ++dist)
    {
        if (src == src_dist_value && !dist) continue;
        if (src == src_weight && kind < 2) continue;
        if (kind == 3 && src != src_weight) continue;
        int const nkinds = src == src_weight ? (kind == 3 ? 5 : 4) : src == src_value ? 4 : 3;
        std::string const base = tn + " integrator=" + std::to_string(kind) + " src=" + std::to_string(src) + " dist=" + std::to_string(dist);
        if (!r.want_prefix(base.substr(0, std::min(base.size(), r.a().replay_case.size())))) continue;
        for (sz iter = 0; iter != 3; ++iter)
        for (unsigned subset = 1; subset != (1u << g_points); ++subset)
        {
            std::vector<sz> members;
            for (sz b = 0; b != g_points; ++b) if (subset & (1u << b)) members.push_back(iter * g_points + b);
            // kind assignments: all for <= 4 members, uniform otherwise
            std::vector<std::vector<int>> assigns;
            if (members.size() <= 4)
            {
                std::vector<int> a(members.size(), 0);
                for (;;)
                {
                    assigns.push_back(a);
                    sz k = 0;
                    while (k != a.size() && ++a[k] == nkinds) { a[k] = 0; ++k; }
                    if (k == a.size()) break;
                }
            }
            else for (int k = 0; k != nkinds; ++k) assigns.push_back(std::vector<int>(members.size(), k));

            // the pair depends on the set of points that return zero: the subset itself for faults of the integrand's
            // value, the poisoned points at which the product with the weight was seen to be non-finite otherwise
            std::map<std::set<sz>, run_out> pairs;
            for (auto const& a : assigns)
            {
                std::string const id = base + " iter=" + std::to_string(iter) + " subset=" + std::to_string(subset) + " kinds=" + vf::join(a, "");
                if (!r.want(id)) continue;
                g.poison.clear();
                for (sz i = 0; i != members.size(); ++i) g.poison[members[i]] = a[i];
                g.src = src;
                g.paired = false; g.observed.clear(); g.zero_at.clear();
                auto const got = run<T>(kind, dist != 0);
                r.eval();
                std::set<sz> zero_at(members.begin(), members.end());
                if (src == src_value)
                {
                    // a huge finite value is a fault only where its product with the weight overflows (observed)
                    bool unmet = false;
                    for (sz i = 0; i != members.size(); ++i) unmet |= a[i] == 3 && !g.observed.count(members[i]);
                    if (unmet) { r.count("huge_value_without_non_finite_product"); continue; }
                }
                if (src == src_weight)
                {
                    zero_at = g.observed;
                    // A NaN in the density slot of a *disabled* channel (kind 4): the documentation says that such a density "will be
                    // ignored".  Either the library does not ignore it and the point is non-finite (observed above, zeroed in the
                    // pair), or it ignores it - then completely: the run must equal the pair, which never saw that NaN.  Any other
                    // poison that does not make the product non-finite leaves the premise of the property unmet.
                    bool ignored_slot = false;
                    for (sz i = 0; i != members.size(); ++i) ignored_slot |= a[i] == 4 && !zero_at.count(members[i]);
                    if (zero_at.empty() && !ignored_slot) { r.count("weight_poison_without_non_finite_product"); continue; }
                }
                if (!pairs.count(zero_at)) { g.paired = true; g.zero_at = zero_at; pairs[zero_at] = run<T>(kind, dist != 0); g.paired = false; }
                run_out const& pair = pairs[zero_at];
                std::string const what = id;
                // expected difference in non_zero_calls
                sz expect_extra = 0;
                if (src == src_value) expect_extra = members.size();
                else if (src == src_weight) expect_extra = zero_at.size();
                std::string const d = vf::first_difference(got.desc, pair.desc);
                if (!d.empty())
                {
                    std::string key = "contaminated";
                    if (d.find("adjustment") != std::string::npos || d.find("x=") != std::string::npos || d.find("weight") != std::string::npos) key = "contaminated/adaptation";
                    else if (d.find("dist0.bin") != std::string::npos || d.find("dist1.bin") != std::string::npos) key = "contaminated/distribution";
                    else if (d.find("finite_calls") != std::string::npos) key = "contaminated/finite_calls";
                    else if (d.find("sum") != std::string::npos) key = "contaminated/sums";
                    r.violate(key, id, what + ": differs from the run in which the same points returned zero: " + d);
                }
                else
                {
                    for (sz k = 0; k != got.nz.size(); ++k)
                    {
                        sz const want = pair.nz[k] + (k == iter ? expect_extra : 0);
                        if (got.nz[k] != want)
                            r.violate("non_zero_calls-not-counted", id, what + ": iteration " + std::to_string(k) + " reports non_zero_calls=" + std::to_string(got.nz[k])
                                + ", the zeroed run has " + std::to_string(pair.nz[k]) + " and " + std::to_string(k == iter ? expect_extra : 0) + " points were non-finite");
                    }
                }
                std::string const dc = vf::first_difference(got.cumulative, pair.cumulative);
                if (!dc.empty() && std::getenv("VF_DEBUG")) std::fprintf(stderr, "GOT\n%s\nPAIR\n%s\nGOTC\n%s\nPAIRC\n%s\n", got.desc.c_str(), pair.desc.c_str(), got.cumulative.c_str(), pair.cumulative.c_str());
                if (!dc.empty())
                    r.violate("contaminated/combined-result", id, what + ": the variance-weighted combination of the results (what the built-in callback reports and "
                        "decides on) differs from that of the run in which the same points returned zero: " + dc);
                std::string lower = got.text + (non_finite_text(pair.cumulative) ? std::string() : got.cumulative);
                for (auto& ch : lower) ch = std::tolower(ch);
                if (lower.find("nan") != std::string::npos || lower.find("inf") != std::string::npos)
                    r.violate("non-finite-number-reported", id, what + (non_finite_text(got.text) ? ": the checkpoint text contains a non-finite number"
                        : ": the variance-weighted combination of the results contains a non-finite number (that of the zeroed run does not)"));
                r.distinct(vf::hash_str(id));
                r.outcome("descriptions", got.desc);
                if (r.wants_sample() && members.size() == 3 && kind == 1 && iter == 1) r.sample(id);
            }
        }
        if (r.deadline_hit()) return;
    }
}

int main(int argc, char** argv)
{
    auto const a = vf::parse_args(argc, argv);
    report r(a);
    if (a.thorough()) g_points = 8;
#if VF_PART_ENABLED(0)
    if ((a.nshards == 1 || a.shard % 3 == 0) && r.want_prefix("float")) enumerate<float>(r);
#endif
#if VF_PART_ENABLED(1)
    if ((a.nshards == 1 || a.shard % 3 == 1) && r.want_prefix("double")) enumerate<double>(r);
#endif
#if VF_PART_ENABLED(2)
    if ((a.nshards == 1 || a.shard % 3 == 2) && r.want_prefix("long double")) enumerate<long double>(r);
#endif
    vf::script_engine::salt() = 0;
    return r.finish();
}
