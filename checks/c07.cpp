// C07 — the VEGAS grid stays a valid partition and refinement equidistributes importance.
// Explicit-state exploration: state = grid (bit pattern of the boundaries) + the checkpoint's
// alpha; transition = hep::vegas_refine_pdf(grid, alpha, data) for every data tuple of the alphabet.
// Invariants on every state, equal-share rule / zero-data rule on every transition, vegas_icdf on
// every state for every critical canonical number; grids reached by real hep::vegas runs on sharply
// peaked integrands are checked the same way; 2-d refinement against the 1-d results.
#include "common.hpp"
#include "engines.hpp"
#include "mpienv.hpp"

#include "hep/mc.hpp"
#include "hep/mc-mpi.hpp"

#include <algorithm>
#include <cmath>
#include <deque>
#include <unordered_set>

using vf::report;
typedef std::size_t sz;

template <typename T>
static std::uint64_t hash_vec(std::vector<T> const& v, std::uint64_t h)
{
    for (T x : v) h = vf::hash_val(x, h);
    return h;
}

template <typename T>
static hep::vegas_pdf<T> make_pdf(std::vector<T> const& x)
{
    hep::vegas_pdf<T> pdf(1, x.size() - 1);
    for (sz i = 0; i != x.size(); ++i) pdf.set_bin_left(0, i, x[i]);
    return pdf;
}

template <typename T>
static std::vector<T> grid_of(hep::vegas_pdf<T> const& pdf, sz dim = 0)
{
    std::vector<T> x(pdf.bins() + 1);
    for (sz i = 0; i != x.size(); ++i) x[i] = pdf.bin_left(dim, i);
    return x;
}

// why the library's arithmetic in T degenerates for this data (classification of findings only)
template <typename T>
static std::string degenerate_class(std::vector<T> const& d)
{
    sz const b = d.size();
    std::vector<T> s(b);
    s[0] = T(0.5) * (d[0] + d[1]);
    for (sz i = 1; i + 1 < b; ++i) s[i] = (d[i - 1] + d[i] + d[i + 1]) / T(3);
    s[b - 1] = T(0.5) * (d[b - 2] + d[b - 1]);
    T norm = T();
    sz nz = 0;
    for (T v : s) { norm += v; nz += v != T(); }
    bool dnz = false;
    for (T v : d) dnz |= v != T();
    if (!std::isfinite(norm)) return "sum-of-data-overflows";
    if (dnz && nz == 0) return "data-underflow-to-zero";
    if (nz == 1) return "single-nonzero-smoothed-bin";
    return "";
}

template <typename T>
static bool check_grid(report& r, std::vector<T> const& x, std::string const& id, std::string const& how,
    std::string const& cls)
{
    std::string const pre = cls.empty() ? "" : cls + "/";
    for (T v : x)
        if (!std::isfinite(v)) { r.violate(pre + "grid-not-finite", id, how + " -> grid " + vf::join_dec(x)); return false; }
    if (x.front() != T() || x.back() != T(1)) { r.violate(pre + "grid-ends-wrong", id, how + " -> grid " + vf::join_dec(x)); return false; }
    for (sz i = 0; i + 1 < x.size(); ++i)
        if (x[i + 1] < x[i]) { r.violate(pre + "grid-not-monotone", id, how + " -> grid " + vf::join_dec(x)); return false; }
    return true;
}

// one transition; returns whether the new grid is a valid state
template <typename T>
static bool check_refine(report& r, std::vector<T> const& x, T alpha, std::vector<T> const& d,
    std::vector<T> const& nx, std::string const& id)
{
    sz const b = d.size();
    std::string const how = std::string(vf::type_name<T>()) + " refine(grid=" + vf::join_dec(x) + "; alpha=" + vf::dec(alpha)
        + "; data=" + vf::join_dec(d) + ")";
    bool all_zero = true;
    for (T v : d) all_zero &= v == T();
    if (all_zero)
    {
        bool same = nx.size() == x.size();
        for (sz i = 0; same && i != x.size(); ++i) same = vf::same_bits(x[i], nx[i]);
        if (!same) { r.violate("zero-data-changes-grid", id, how + " -> grid " + vf::join_dec(nx)); }
        return check_grid(r, nx, id, how, "") && same;
    }
    std::string const cls = degenerate_class(d);
    if (!check_grid(r, nx, id, how, cls)) return false;
    if (!cls.empty()) { r.count("transitions_outside_moderate_range"); return true; }

    // reference importance in long double
    typedef long double L;
    std::vector<L> s(b), imp(b, 0.0L);
    s[0] = 0.5L * (L(d[0]) + L(d[1]));
    for (sz i = 1; i + 1 < b; ++i) s[i] = (L(d[i - 1]) + L(d[i]) + L(d[i + 1])) / 3.0L;
    s[b - 1] = 0.5L * (L(d[b - 2]) + L(d[b - 1]));
    L norm = 0;
    for (L v : s) norm += v;
    L total = 0;
    bool moderate = std::isfinite(norm) && norm < L(std::numeric_limits<T>::max()) / 4;
    // data so small that the smoothing in T loses digits (subnormal range) are outside the oracle
    L const tiny = L(std::numeric_limits<T>::min()) / L(std::numeric_limits<T>::epsilon());
    for (T v : d) if (v != T() && L(v) < tiny) moderate = false;
    for (sz i = 0; i != b; ++i)
    {
        if (s[i] == 0) continue;
        L const ratio = s[i] / norm;
        if (ratio < 1e-12L) moderate = false;
        if (ratio == 1.0L) { moderate = false; continue; }
        imp[i] = std::pow((ratio - 1.0L) / std::log(ratio), L(alpha));
        total += imp[i];
    }
    if (!moderate) { r.count("transitions_outside_moderate_range"); return true; }
    L const avg = total / b;
    L const eps = std::numeric_limits<T>::epsilon();
    for (sz k = 1; k < b; ++k)
    {
        L const p = nx[k];
        L flo = 0, fhi = 0, amp = 0;
        for (sz j = 0; j != b; ++j)
        {
            L const lo = x[j], hi = x[j + 1], size = hi - lo;
            if (size > 0)
            {
                L const f = std::min(1.0L, std::max(0.0L, (p - lo) / size));
                flo += imp[j] * f; fhi += imp[j] * f;
                if (p >= lo && p <= hi) amp = std::max(amp, imp[j] / size);
            }
            else
            {
                flo += (p > lo) ? imp[j] : 0.0L;
                fhi += (p >= lo) ? imp[j] : 0.0L;
            }
        }
        L const tol = 64 * eps * (b * total + amp);
        L const want = k * avg;
        if (want < flo - tol || want > fhi + tol)
        {
            r.violate("equal-share-rule", id, how + " -> grid " + vf::join_dec(nx) + "; boundary " + std::to_string(k)
                + " holds cumulative importance " + vf::dec(flo) + " of " + vf::dec(total) + ", expected " + vf::dec(want)
                + " (tolerance " + vf::dec(tol) + ")");
            return true;
        }
    }
    return true;
}

// vegas_icdf on one grid for every critical canonical number
template <typename T>
static void check_icdf(report& r, std::vector<T> const& x, std::string const& id)
{
    sz const b = x.size() - 1;
    auto const pdf = make_pdf(x);
    std::vector<T> us = {T(0), std::ldexp(T(1), -64), std::nextafter(T(1), T(0)), T(0.5)};
    // exactly 1 is only in the property's quantifier for float (generate_canonical's historic bug)
    if (std::is_same<T, float>::value) us.push_back(T(1));
    for (sz k = 1; k < b; ++k)
    {
        T const c = T(k) / T(b);
        us.push_back(c);
        us.push_back(std::nextafter(c, T(0)));
        us.push_back(std::nextafter(c, T(1)));
    }
    for (T u : us)
    {
        std::vector<T> rn = {u};
        std::vector<sz> bin = {sz(-1)};
        T const w = hep::vegas_icdf(pdf, rn, bin);
        r.eval();
        std::string const how = std::string(vf::type_name<T>()) + " icdf(grid=" + vf::join_dec(x) + ", u=" + vf::dec(u) + ")";
        if (bin[0] >= b) { r.violate("icdf-bin-out-of-range", id, how + " -> bin " + std::to_string(bin[0])); continue; }
        T const lo = x[bin[0]], hi = x[bin[0] + 1];
        if (!(rn[0] >= lo && rn[0] <= hi))
        {
            r.violate("icdf-point-outside-bin", id, how + " -> bin " + std::to_string(bin[0]) + " point " + vf::dec(rn[0]));
            continue;
        }
        long double const want = static_cast<long double>(b) * (static_cast<long double>(hi) - static_cast<long double>(lo));
        if (!(std::fabs(static_cast<long double>(w) - want) <= 4 * std::numeric_limits<T>::epsilon() * want))
            r.violate("icdf-weight", id, how + " -> weight " + vf::dec(w) + " expected bins*width=" + vf::dec(want));
        // the point must be where the piecewise-linear inverse CDF puts it
        if (u < T(1))
        {
            long double const pos = static_cast<long double>(u) * b;
            long double const frac = pos - std::floor(pos);
            long double const wantp = static_cast<long double>(x[sz(std::floor(pos))])
                + frac * (static_cast<long double>(x[sz(std::floor(pos)) + 1]) - static_cast<long double>(x[sz(std::floor(pos))]));
            // the rounding error of u*bins (up to bins*eps/2) is scaled by the width of the bin
            if (!(std::fabs(static_cast<long double>(rn[0]) - wantp) <= 4 * std::numeric_limits<T>::epsilon() * (want + 1)))
                r.violate("icdf-point-position", id, how + " -> point " + vf::dec(rn[0]) + " expected " + vf::dec(wantp));
        }
        r.outcome("icdf (bins,bin)", (b << 8) | bin[0]);
    }
}

template <typename T>
struct node
{
    std::vector<T> x;
    std::string path;
};

template <typename T>
static std::vector<std::vector<T>> tuples(std::vector<T> const& alpha, sz b)
{
    std::vector<std::vector<T>> out;
    std::vector<sz> idx(b, 0);
    for (;;)
    {
        std::vector<T> d(b);
        for (sz i = 0; i != b; ++i) d[i] = alpha[idx[i]];
        out.push_back(d);
        sz k = 0;
        while (k != b && ++idx[k] == alpha.size()) { idx[k] = 0; ++k; }
        if (k == b) break;
    }
    return out;
}

template <typename T>
static void explore(report& r, bool thorough, int ai, T alpha)
{
    std::string const tn = vf::type_name<T>();
    T const big = std::is_same<T, float>::value ? T(1e20L) : T(1e30L);
    T const small = std::is_same<T, float>::value ? T(1e-20L) : T(1e-30L);
    T const mx = std::numeric_limits<T>::max();

    for (sz b : {sz(2), sz(3), sz(4), sz(5), sz(8)})
    {
        std::string const base = tn + " a=" + std::to_string(ai) + " B=" + std::to_string(b);
        if (!r.want_prefix(base.substr(0, std::min(base.size(), r.a().replay_case.size())))) continue;

        // initial states
        std::vector<node<T>> init;
        init.push_back({grid_of(hep::vegas_pdf<T>(1, b)), base + " init=uniform"});
        if (b <= 4)
        {
            // all strictly increasing grids on the eighth lattice
            std::vector<sz> cut(b - 1);
            std::function<void(sz, sz)> rec = [&](sz pos, sz from) {
                if (pos == b - 1)
                {
                    std::vector<T> x = {T(0)};
                    for (sz c : cut) x.push_back(T(c) / T(8));
                    x.push_back(T(1));
                    init.push_back({x, base + " init=eighths:" + vf::join(cut, "/")});
                    return;
                }
                for (sz c = from; c <= 7; ++c) { cut[pos] = c; rec(pos + 1, c + 1); }
            };
            rec(0, 1);
        }
        {
            // one very narrow bin
            std::vector<T> x(b + 1);
            for (sz i = 0; i <= b; ++i) x[i] = T(i) / T(b);
            x[1] = T(1e-6L);
            init.push_back({x, base + " init=narrow"});
        }

        // data alphabets
        std::vector<std::vector<T>> data_full, data_small;
        if (b <= 4)
        {
            data_full = tuples<T>({T(0), T(1), T(3), small, big, std::numeric_limits<T>::denorm_min(), mx / T(4 * b), mx / T(2)}, b);
        }
        else
        {
            data_full = tuples<T>({T(0), T(1), T(1e6L)}, b);
            for (T v : {T(1), small, big, std::numeric_limits<T>::denorm_min(), mx / T(4 * b), mx / T(2)})
            {
                for (sz i = 0; i != b; ++i)
                {
                    std::vector<T> d(b, T(0)); d[i] = v; data_full.push_back(d);
                    if (i + 1 < b) { d[i + 1] = v; data_full.push_back(d); d[i + 1] = T(1); data_full.push_back(d); }
                }
            }
        }
        data_small = b <= 5 ? tuples<T>({T(0), T(1), T(1e6L)}, b) : tuples<T>({T(0), T(1)}, b);

        std::unordered_set<std::uint64_t> seen;
        std::uint64_t const seed = vf::splitmix64(ai * 100 + b);
        std::deque<node<T>> frontier;
        for (auto const& n : init)
        {
            if (r.want(n.path)) { check_grid(r, n.x, n.path, "initial grid", ""); check_icdf(r, n.x, n.path); }
            if (seen.insert(hash_vec(n.x, seed)).second) { frontier.push_back(n); r.state(); }
        }

        int const max_depth = thorough ? (b <= 5 ? 3 : 2) : (b <= 4 ? 2 : 1);
        for (int depth = 1; depth <= max_depth; ++depth)
        {
            std::deque<node<T>> next;
            for (auto const& n : frontier)
            {
                if (!r.want_prefix(n.path.substr(0, std::min(n.path.size(), r.a().replay_case.size())))) continue;
                bool const from_small = n.path.find("#") == std::string::npos;   // reached by the small alphabet only
                // depth 1: full alphabet (successors not expanded) and small alphabet (expanded)
                for (int pass = 0; pass != 2; ++pass)
                {
                    if (pass == 0 && depth != 1) continue;
                    auto const& data = pass == 0 ? data_full : data_small;
                    for (auto const& d : data)
                    {
                        std::string const id = n.path + (pass == 0 ? " # " : " | ") + vf::join_dec(d);
                        bool const exec = r.want(id);
                        bool const prefix = r.a().replay && r.a().replay_case.compare(0, id.size(), id) == 0;
                        if (!exec && !prefix) continue;
                        auto const npdf = hep::vegas_refine_pdf(make_pdf(n.x), alpha, d);
                        auto const nx = grid_of(npdf);
                        bool valid = true;
                        if (exec)
                        {
                            r.transition();
                            r.eval();
                            valid = check_refine(r, n.x, alpha, d, nx, id);
                            sz zeros = 0;
                            for (T v : d) zeros += v == T();
                            if (zeros) r.distinct(vf::hash_str(id));
                            if (r.wants_sample() && depth == 2 && zeros == 1) r.sample(id + " -> " + vf::join_dec(nx));
                        }
                        else
                        {
                            for (T v : nx) valid &= std::isfinite(v);
                        }
                        if (!valid || pass == 0) continue;
                        if (prefix || seen.insert(hash_vec(nx, seed)).second)
                        {
                            if (exec && (depth < max_depth || !thorough)) check_icdf(r, nx, id);
                            if (depth < max_depth)
                            {
                                if (next.size() < 300000) { next.push_back({nx, id}); r.state(); }
                                else r.cap("frontier capped at 300000 states (B=" + std::to_string(b) + ", depth " + std::to_string(depth) + ")");
                            }
                            else r.state();
                        }
                    }
                }
                if (r.deadline_hit()) break;
            }
            frontier.swap(next);
            if (r.deadline_hit()) break;
        }
    }
}

// ---- 2-d: every dimension refined with its own data, against the 1-d results -----------------------

template <typename T>
static void two_dim(report& r)
{
    std::string const tn = vf::type_name<T>();
    for (sz b : {sz(2), sz(3), sz(4)})
    {
        std::vector<std::vector<T>> grids, datas;
        for (sz v = 0; v != 4; ++v)
        {
            std::vector<T> x(b + 1), d(b);
            for (sz i = 0; i <= b; ++i) x[i] = T(i) / T(b);
            if (v & 1) x[1] = T(1) / T(16);
            if (v & 2) x[b - 1] = T(15) / T(16);
            grids.push_back(x);
            for (sz i = 0; i != b; ++i) d[i] = (v == 0) ? T(0) : T((i * 7 + v * 3) % 5);
            datas.push_back(d);
        }
        for (sz g0 = 0; g0 != 4; ++g0) for (sz g1 = 0; g1 != 4; ++g1)
        for (sz d0 = 0; d0 != 4; ++d0) for (sz d1 = 0; d1 != 4; ++d1)
        for (T alpha : {T(0.5), T(1.5)})
        {
            std::string const id = tn + " 2d B=" + std::to_string(b) + " g=" + std::to_string(g0) + std::to_string(g1) + " d="
                + std::to_string(d0) + std::to_string(d1) + " alpha=" + vf::dec(alpha);
            if (!r.want(id)) continue;
            r.eval();
            r.transition();
            hep::vegas_pdf<T> pdf(2, b);
            for (sz i = 0; i <= b; ++i) { pdf.set_bin_left(0, i, grids[g0][i]); pdf.set_bin_left(1, i, grids[g1][i]); }
            std::vector<T> data = datas[d0];
            data.insert(data.end(), datas[d1].begin(), datas[d1].end());
            auto const np = hep::vegas_refine_pdf(pdf, alpha, data);
            auto const a0 = grid_of(hep::vegas_refine_pdf(make_pdf(grids[g0]), alpha, datas[d0]));
            auto const a1 = grid_of(hep::vegas_refine_pdf(make_pdf(grids[g1]), alpha, datas[d1]));
            bool same = np.dimensions() == 2 && np.bins() == b;
            for (sz i = 0; same && i <= b; ++i) same = vf::same_bits(np.bin_left(0, i), a0[i]) && vf::same_bits(np.bin_left(1, i), a1[i]);
            if (!same)
                r.violate("2d-differs-from-1d", id, id + ": dimension grids " + vf::join_dec(grid_of(np, 0)) + " / " + vf::join_dec(grid_of(np, 1))
                    + " expected " + vf::join_dec(a0) + " / " + vf::join_dec(a1));
            if (d0 != d1 || g0 != g1) r.distinct(vf::hash_str(id));
        }
    }
}

// ---- grids reached by real runs ----------------------------------------------------------------------

template <typename T>
struct peak
{
    T center, width;
    T operator()(hep::vegas_point<T> const& p) const
    {
        T v = T(1);
        for (T y : p.point()) { T const z = (y - center) / width; v *= T(1) / (T(1) + z * z); }
        return v;
    }
};

template <typename T>
static void real_runs(report& r, bool thorough)
{
    std::string const tn = vf::type_name<T>();
    for (T width : {T(1e-1L), T(1e-2L), T(1e-3L), T(1e-4L)})
    for (T center : {T(0.5), T(0.013L), T(1)})
    for (sz bins : {sz(4), sz(8), sz(50)})
    for (sz dims : {sz(1), sz(2)})
    for (sz calls : {sz(64), sz(1000)})
    for (int eng = 0; eng != 2; ++eng)
    {
        std::string const id = tn + " run width=" + vf::dec(width) + " center=" + vf::dec(center) + " bins=" + std::to_string(bins)
            + " dims=" + std::to_string(dims) + " calls=" + std::to_string(calls) + " engine=" + (eng ? "hash" : "lattice");
        if (!r.want(id)) continue;
        r.eval();
        sz const iters = thorough ? 20 : 10;
        if (eng == 0)
        {
            // lattice in every iteration: same table reused by restarting the position is not possible
            // (the generator continues), so the table covers all iterations
            std::vector<sz> m(dims, dims == 1 ? calls : sz(std::sqrt(double(calls))));
            sz const n = vf::fill_lattice(m);
            auto& t = vf::script_engine::table();
            std::vector<std::uint64_t> one = t;
            for (sz k = 1; k < iters; ++k) t.insert(t.end(), one.begin(), one.end());
            (void)n;
        }
        else
        {
            vf::script_engine::table().clear();
            vf::script_engine::salt() = 4242;
        }
        sz const per_iter = (eng == 0 && dims == 2) ? sz(std::sqrt(double(calls))) * sz(std::sqrt(double(calls))) : calls;
        T const alpha = T(0.75);
        auto chk = hep::make_vegas_chkpt<T, vf::script_engine>(bins, alpha);
        using chk_t = decltype(chk);
        // a user callback so that the default stop rule does not interfere
        struct never_stop { bool operator()(chk_t const&) const { return true; } };
        chk = hep::vegas(hep::make_integrand<T>(peak<T>{center, width}, dims), std::vector<sz>(iters, per_iter), chk, never_stop());
        auto const& res = chk.results();
        for (sz k = 0; k != res.size(); ++k)
        {
            auto const nextpdf = (k + 1 < res.size()) ? res[k + 1].pdf() : chk.pdf();
            for (sz dim = 0; dim != dims; ++dim)
            {
                auto const x = grid_of(res[k].pdf(), dim);
                auto const nx = grid_of(nextpdf, dim);
                std::vector<T> d(res[k].adjustment_data().begin() + dim * bins, res[k].adjustment_data().begin() + (dim + 1) * bins);
                r.state();
                r.transition();
                std::string const how = id + " iteration " + std::to_string(k) + " dim " + std::to_string(dim);
                if (check_grid(r, x, id, how, "")) { if (bins <= 8 || k % 3 == 0) check_icdf(r, x, id); }
                check_refine(r, x, alpha, d, nx, id);
                r.outcome("grids reached in real runs", hash_vec(nx, 1));
            }
        }
        r.distinct(vf::hash_str(id));
    }
    vf::script_engine::salt() = 0;
    vf::script_engine::table().clear();
}

// the same chain check on mpi_vegas under the MPI shim: the grid of iteration k+1 must equidistribute the
// *reduced* adjustment data recorded in result k
template <typename T>
static void mpi_runs(report& r)
{
    std::string const tn = vf::type_name<T>();
    for (int world : {2, 3})
    for (T width : {T(1e-1L), T(1e-3L)})
    for (sz bins : {sz(4), sz(8)})
    {
        std::string const id = tn + " mpirun world=" + std::to_string(world) + " width=" + vf::dec(width) + " bins=" + std::to_string(bins);
        if (!r.want(id)) continue;
        r.eval();
        vf::script_engine::table().clear();
        vf::script_engine::salt() = 777;
        T const alpha = T(1.25);
        vf::mpi_env env(world);
        auto chk0 = hep::make_vegas_chkpt<T, vf::script_engine>(bins, alpha);
        std::vector<std::string> texts(world);
        auto out = env.run([&](int rank) {
            auto c = hep::mpi_vegas(MPI_COMM_WORLD, hep::make_integrand<T>(peak<T>{T(0.3L), width}, 2), std::vector<sz>(6, 101),
                hep::make_vegas_chkpt<T, vf::script_engine>(bins, alpha), vf::never_stop_mpi());
            std::ostringstream o; c.serialize(o); texts[rank] = o.str();
            if (rank == 0) chk0 = c;
        });
        if (!out.ok) { r.violate("mpi-run-failed", id, id + ": " + out.what); continue; }
        for (int k = 1; k < world; ++k) if (texts[k] != texts[0]) { r.violate("mpi-ranks-hold-different-grids", id, id + ": rank " + std::to_string(k) + " returns a different checkpoint than rank 0"); break; }
        auto const& res = chk0.results();
        for (sz k = 0; k != res.size(); ++k)
        {
            auto const nextpdf = (k + 1 < res.size()) ? res[k + 1].pdf() : chk0.pdf();
            for (sz dim = 0; dim != 2; ++dim)
            {
                std::vector<T> d(res[k].adjustment_data().begin() + dim * bins, res[k].adjustment_data().begin() + (dim + 1) * bins);
                r.state(); r.transition();
                if (check_grid(r, grid_of(res[k].pdf(), dim), id, id + " iteration " + std::to_string(k), ""))
                    check_refine(r, grid_of(res[k].pdf(), dim), alpha, d, grid_of(nextpdf, dim), id);
            }
        }
        r.distinct(vf::hash_str(id));
    }
    vf::script_engine::salt() = 0;
}

// vegas_icdf in many dimensions: the weight bins x width per dimension is an ordinary number even when the product of
// the widths alone (or of the bin counts alone) leaves the exponent range of T
template <typename T>
static void many_dimensions(report& r)
{
    std::string const tn = vf::type_name<T>();
    for (sz dims : {sz(5), sz(19), sz(22), sz(40), sz(100)})
    for (sz bins : {sz(128), sz(100), sz(3)})
    for (int shape = 0; shape != 2; ++shape)
    {
        std::string const id = tn + " manydim d=" + std::to_string(dims) + " bins=" + std::to_string(bins) + " shape=" + std::to_string(shape);
        if (!r.want(id)) continue;
        r.eval();
        hep::vegas_pdf<T> pdf(dims, bins);
        if (shape == 1) for (sz d = 0; d != dims; ++d) pdf.set_bin_left(d, 1, T(1e-6L));     // a very narrow first bin in every dimension
        for (T u : {T(0), T(0.5), std::nextafter(T(1), T(0))})
        {
            std::vector<T> rn(dims, u);
            std::vector<sz> bin(dims, sz(-1));
            T const w = hep::vegas_icdf(pdf, rn, bin);
            long double want = 1;
            bool ok = true;
            for (sz d = 0; d != dims; ++d)
            {
                if (bin[d] >= bins) { r.violate("icdf-bin-out-of-range", id, id + ": bin " + std::to_string(bin[d])); ok = false; break; }
                want *= static_cast<long double>(bins) * (static_cast<long double>(pdf.bin_left(d, bin[d] + 1)) - static_cast<long double>(pdf.bin_left(d, bin[d])));
            }
            if (!ok) break;
            // only where the true weight is comfortably representable in T
            if (want > static_cast<long double>(std::numeric_limits<T>::min()) * 1e6L && want < static_cast<long double>(std::numeric_limits<T>::max()) / 1e6L
                && !(std::fabs(static_cast<long double>(w) - want) <= 4 * dims * std::numeric_limits<T>::epsilon() * want))
            {
                r.violate("icdf-weight", id, id + " u=" + vf::dec(u) + ": weight " + vf::dec(w) + ", product of bins x width over the dimensions = " + vf::dec(want));
                break;
            }
        }
        r.distinct(vf::hash_str(id));
    }
}

// the uniform default grid for every bin count up to 512 (and a few dimensions): a valid partition, ending at exactly 1
template <typename T>
static void uniform_grids(report& r)
{
    std::string const tn = vf::type_name<T>();
    for (sz b = 2; b <= 512; ++b)
    for (sz d : {sz(1), sz(3)})
    {
        std::string const id = tn + " uniform B=" + std::to_string(b) + " d=" + std::to_string(d);
        if (!r.want(id)) continue;
        r.eval();
        hep::vegas_pdf<T> pdf(d, b);
        for (sz k = 0; k != d; ++k)
        {
            auto const x = grid_of(pdf, k);
            r.state();
            if (!check_grid(r, x, id, "vegas_pdf(" + std::to_string(d) + ", " + std::to_string(b) + ") dimension " + std::to_string(k), "")) break;
            // equal widths to rounding
            for (sz i = 0; i != b; ++i)
                if (!(std::fabs(static_cast<long double>(x[i + 1]) - static_cast<long double>(x[i]) - 1.0L / b) <= 4 * std::numeric_limits<T>::epsilon()))
                { r.violate("uniform-grid-not-uniform", id, id + ": bin " + std::to_string(i) + " has width " + vf::dec(x[i + 1] - x[i])); break; }
            if (b <= 8 || b % 37 == 0) check_icdf(r, x, id);
        }
        // a refinement keeps the end points
        std::vector<T> data(d * b, T(1));
        data[0] = T(5);
        auto const np = hep::vegas_refine_pdf(pdf, T(1.5), data);
        r.transition();
        for (sz k = 0; k != d; ++k) check_grid(r, grid_of(np, k), id, "refinement of the uniform grid with " + std::to_string(b) + " bins", "");
        if (b > 8) r.distinct(vf::hash_str(id));
    }
}

template <typename T>
static void for_type(report& r, int ai, bool extras)
{
    T const alphas[] = {T(0), T(0.5), T(1), T(1.5), T(3)};
    explore<T>(r, r.a().thorough(), ai, alphas[ai]);
    if (extras)
    {
        if (r.want_prefix(std::string(vf::type_name<T>()) + " 2d")) two_dim<T>(r);
        if (r.want_prefix(std::string(vf::type_name<T>()) + " run")) real_runs<T>(r, r.a().thorough());
        if (r.want_prefix(std::string(vf::type_name<T>()) + " mpirun")) mpi_runs<T>(r);
        if (r.want_prefix(std::string(vf::type_name<T>()) + " uniform")) uniform_grids<T>(r);
        if (r.want_prefix(std::string(vf::type_name<T>()) + " manydim")) many_dimensions<T>(r);
    }
}

int main(int argc, char** argv)
{
    auto const a = vf::parse_args(argc, argv);
    report r(a);
    // shard = (type, alpha index): 15 shards; alpha is a checkpoint parameter and part of the state
    for (int s = 0; s != 15; ++s)
    {
        if (a.nshards != 1 && s % a.nshards != a.shard) continue;
        int const type = s % 3, ai = s / 3;
        if (type == 0 && r.want_prefix("float")) for_type<float>(r, ai, ai == 0);
        if (type == 1 && r.want_prefix("double")) for_type<double>(r, ai, ai == 0);
        if (type == 2 && r.want_prefix("long double")) for_type<long double>(r, ai, ai == 0);
    }
    return r.finish();
}
