// C08 — channel weights stay a probability vector; disabled channels and floor respected.
// Explicit-state exploration: state = weight vector (bit pattern) + the checkpoint's (beta, min);
// transition = hep::multi_channel_refine_weights(w, data, min, beta) for every data tuple of the
// alphabet.  Initial states come from the real checkpoint constructors.  Invariants are checked in
// every state, the documented update rule on every transition.  In addition the weights recorded by
// real adaptive hep::multi_channel runs are checked the same way.
#include "common.hpp"
#include "engines.hpp"
#include "mcmodel.hpp"
#include "mpienv.hpp"

#include "hep/mc.hpp"
#include "hep/mc-mpi.hpp"

#include <algorithm>
#include <cmath>
#include <deque>
#include <unordered_set>

using vf::report;
typedef std::size_t sz;

template <typename T>
static std::uint64_t hash_vec(std::vector<T> const& v, std::uint64_t h = 1469598103934665603ULL)
{
    for (T x : v) h = vf::hash_val(x, h);
    return h;
}

template <typename T>
static std::string show(std::vector<T> const& v) { return vf::join_dec(v); }

// invariants of a weight vector that is used for an iteration
template <typename T>
static bool check_state(report& r, std::vector<T> const& w, std::string const& id, std::string const& how)
{
    long double sum = 0;
    for (T x : w)
    {
        if (!std::isfinite(x))
        {
            r.violate("weight-not-finite", id, how + " -> weights " + show(w));
            return false;
        }
        if (x < T())
        {
            r.violate("weight-negative", id, how + " -> weights " + show(w));
            return false;
        }
        sum += x;
    }
    long double const tol = 4 * w.size() * static_cast<long double>(std::numeric_limits<T>::epsilon());
    if (!(std::fabs(sum - 1.0L) <= tol))
    {
        r.violate("weights-do-not-sum-to-one", id, how + " -> weights " + show(w) + " sum-1=" + vf::dec(sum - 1.0L));
        return false;
    }
    return true;
}

// the documented rule on one transition; returns false if the new state is unusable
template <typename T>
static bool check_transition(report& r, std::vector<T> const& w, std::vector<T> const& d, T minw, T beta,
    std::vector<T> const& nw, std::string const& id)
{
    std::string const how = std::string(vf::type_name<T>()) + " refine(w=" + show(w) + "; data=" + show(d) + "; min="
        + vf::dec(minw) + " beta=" + vf::dec(beta) + ")";
    sz const c = w.size();
    if (nw.size() != c) { r.violate("size-changed", id, how); return false; }
    bool all_zero = true;
    for (T x : d) all_zero &= x == T();
    if (all_zero)
    {
        bool same = true;
        for (sz i = 0; i != c; ++i) same &= vf::same_bits(w[i], nw[i]);
        if (!same)
        {
            r.violate("all-zero-data-changes-weights", id, how + " -> " + show(nw));
            return check_state(r, nw, id, how);
        }
        return true;
    }
    if (!check_state(r, nw, id, how)) return false;
    for (sz i = 0; i != c; ++i)
    {
        if (w[i] == T() && nw[i] != T())
        {
            r.violate("disabled-channel-re-enabled", id, how + " -> " + show(nw));
            return true;
        }
    }
    // reference in long double; only where no product underflows in T ("moderate" data)
    std::vector<long double> v(c);
    long double s = 0;
    bool moderate = true;
    long double const tiny = static_cast<long double>(std::numeric_limits<T>::min())
        / static_cast<long double>(std::numeric_limits<T>::epsilon());
    for (sz i = 0; i != c; ++i)
    {
        v[i] = static_cast<long double>(w[i]) * std::pow(static_cast<long double>(d[i]), static_cast<long double>(beta));
        if (v[i] != 0 && (v[i] < tiny || v[i] > static_cast<long double>(std::numeric_limits<T>::max()) / 16)) moderate = false;
        s += v[i];
    }
    if (!moderate || s == 0) { r.count("transitions_outside_moderate_range"); return true; }
    long double s2 = 0;
    std::vector<long double> t(c, 0.0L);
    for (sz i = 0; i != c; ++i)
    {
        if (v[i] == 0) continue;
        t[i] = std::max(v[i] / s, static_cast<long double>(minw));
        s2 += t[i];
    }
    long double const eps = static_cast<long double>(std::numeric_limits<T>::epsilon());
    for (sz i = 0; i != c; ++i)
    {
        if (!(w[i] > T() && d[i] > T())) continue;
        long double const want = t[i] / s2;
        long double const got = nw[i];
        // a quotient v/s within rounding of the floor may be floored or not: both are within tolerance
        if (!(std::fabs(got - want) <= 32 * eps * want + static_cast<long double>(std::numeric_limits<T>::min())))
        {
            r.violate("update-rule", id, how + " -> " + show(nw) + "; channel " + std::to_string(i) + " expected "
                + vf::dec(want) + " got " + vf::dec(got));
            return true;
        }
        long double const floor_ = static_cast<long double>(minw) / (1 + c * static_cast<long double>(minw));
        if (got < floor_ * (1 - 32 * eps))
        {
            r.violate("below-minimum-weight", id, how + " -> " + show(nw) + "; channel " + std::to_string(i)
                + " below min/(1+C*min)=" + vf::dec(floor_));
            return true;
        }
    }
    return true;
}

template <typename T>
struct node
{
    std::vector<T> w;
    int param;
    std::string path;   // history that reaches the state (for replay)
};

template <typename T>
static void explore(report& r, bool thorough, int group, int ngroups)
{
    std::vector<T> const betas = {T(0.25), T(0.5), T(1)};
    std::vector<T> const init_alpha = {T(0), T(1), T(2), T(0.1L)};
    std::vector<T> const data_full = {T(0), T(1), T(1e-3L), T(1e3L), T(1e-30L), T(1e30L)};
    std::vector<T> const data_small = {T(0), T(1), T(1e-3L), T(1e30L)};
    std::string const tn = vf::type_name<T>();

    for (sz c = 1; c <= 4; ++c)
    {
        std::vector<T> const mins = {T(0), T(0.01L), T(0.9L) / T(c)};
        int const max_depth = thorough ? (c <= 3 ? 3 : 2) : (c <= 3 ? 2 : 1);

        std::deque<node<T>> frontier;
        std::unordered_set<std::uint64_t> seen;

        // initial states from the real constructors
        for (int p = 0; p != 9; ++p)
        {
            if (p % ngroups != group) continue;
            T const beta = betas[p % 3], minw = mins[p / 3];
            // uniform default
            {
                auto chk = hep::make_multi_channel_chkpt<T>(minw, beta);
                chk.channels(c);
                node<T> n{chk.channel_weights(), p, tn + " C=" + std::to_string(c) + " p=" + std::to_string(p) + " init=default"};
                if (r.want(n.path)) { r.eval(); check_state(r, n.w, n.path, "default weights"); }
                if (seen.insert(hash_vec(n.w, vf::splitmix64(1000 + p))).second) { frontier.push_back(n); r.state(); }
            }
            std::vector<sz> idx(c, 0);
            for (;;)
            {
                std::vector<T> u(c);
                bool nonzero = false;
                for (sz i = 0; i != c; ++i) { u[i] = init_alpha[idx[i]]; nonzero |= u[i] != T(); }
                if (nonzero)
                {
                    auto chk = hep::make_multi_channel_chkpt<T>(u, minw, beta);
                    chk.channels(c);
                    node<T> n{chk.channel_weights(), p, tn + " C=" + std::to_string(c) + " p=" + std::to_string(p) + " init=" + show(u)};
                    if (r.want(n.path))
                    {
                        r.eval();
                        r.transition();
                        bool ok = check_state(r, n.w, n.path, "constructor(" + show(u) + ")");
                        for (sz i = 0; ok && i != c; ++i)
                            if ((u[i] == T()) != (n.w[i] == T()))
                                r.violate("constructor-changes-enabled-set", n.path, "constructor(" + show(u) + ") -> " + show(n.w));
                        // proportional to the user's weights, floored
                        check_transition(r, u, std::vector<T>(c, T(1)), minw, beta, n.w, n.path);
                    }
                    if (seen.insert(hash_vec(n.w, vf::splitmix64(1000 + p))).second) { frontier.push_back(n); r.state(); }
                }
                sz k = 0;
                while (k != c && ++idx[k] == init_alpha.size()) { idx[k] = 0; ++k; }
                if (k == c) break;
            }
        }

        for (int depth = 1; depth <= max_depth; ++depth)
        {
            auto const& alpha = depth == 1 ? data_full : data_small;
            std::deque<node<T>> next;
            for (auto const& n : frontier)
            {
                T const beta = betas[n.param % 3], minw = mins[n.param / 3];
                if (!r.want_prefix(n.path.substr(0, std::min(n.path.size(), r.a().replay_case.size())))) continue;
                std::vector<sz> idx(c, 0);
                for (;;)
                {
                    std::vector<T> d(c);
                    for (sz i = 0; i != c; ++i) d[i] = alpha[idx[i]];
                    std::string const id = n.path + " | " + show(d);
                    bool const exec = r.want(id);
                    bool const prefix = r.a().replay && r.a().replay_case.compare(0, id.size(), id) == 0;
                    if (exec || prefix)
                    {
                        auto const nw = hep::multi_channel_refine_weights(n.w, d, minw, beta);
                        bool usable = true;
                        if (exec)
                        {
                            r.eval();
                            r.transition();
                            usable = check_transition(r, n.w, d, minw, beta, nw, id);
                            bool hasz = false, datz = false;
                            for (sz i = 0; i != c; ++i) { hasz |= n.w[i] == T(); datz |= d[i] == T(); }
                            if (hasz || datz) r.distinct(vf::hash_str(id));
                            if (r.wants_sample() && depth == 2 && hasz) r.sample(id + " -> " + show(nw));
                        }
                        if (usable && depth < max_depth)
                        {
                            bool fin = true;
                            for (T x : nw) fin &= std::isfinite(x);
                            if (fin && (prefix || seen.insert(hash_vec(nw, vf::splitmix64(1000 + n.param))).second))
                            {
                                if (next.size() < 400000) { next.push_back({nw, n.param, id}); r.state(); }
                                else r.cap("frontier capped at 400000 states (C=" + std::to_string(c) + ", depth " + std::to_string(depth) + ")");
                            }
                        }
                    }
                    sz k = 0;
                    while (k != c && ++idx[k] == alpha.size()) { idx[k] = 0; ++k; }
                    if (k == c) break;
                }
                if (r.deadline_hit()) break;
            }
            frontier.swap(next);
            r.count("max_depth_completed_C" + std::to_string(c) + "_" + tn, 0);
            r.set_counter("max_depth_completed_C" + std::to_string(c) + "_" + tn, depth);
            if (r.deadline_hit()) break;
        }
    }
}

// ---- weights reached in real adaptive runs -------------------------------------------------------

template <typename T>
struct peak_fn
{
    int kind;
    T operator()(hep::multi_channel_point<T> const& p) const
    {
        T const y = p.coordinates()[0];
        switch (kind)
        {
        case 0: return y < T(0.25) ? T(8) : T(0.125);          // mass on the left
        case 1: return y * y * y * y * T(5);                    // mass on the right
        case 2: return (y > T(0.4) && y < T(0.6)) ? T(5) : T(); // narrow window, many zeros
        default: return T();                                    // no information at all
        }
    }
};

// kinds 4..6: peak_fn 0 / 1 / 0 with windows in which the integrand is +inf or NaN; 4 and 5 fill a distribution as well
// (the accumulator for integrands with distributions is a different specialisation), 6 does not
template <typename T>
struct nonfinite_fn
{
    int kind;
    T value(T y) const
    {
        if (y > T(0.3L) && y < T(0.36L)) return std::numeric_limits<T>::infinity();
        if (y > T(0.8L) && y < T(0.83L)) return std::numeric_limits<T>::quiet_NaN();
        return kind == 5 ? y * y * y * y * T(5) : (y < T(0.25) ? T(8) : T(0.125));
    }
    T operator()(hep::multi_channel_point<T> const& p) const { return value(p.coordinates()[0]); }
    T operator()(hep::multi_channel_point<T> const& p, hep::projector<T>& proj) const
    {
        T const v = value(p.coordinates()[0]);
        proj.add(0, p.coordinates()[0], v);
        return v;
    }
};

template <typename T>
static void real_runs(report& r, bool thorough)
{
    std::string const tn = vf::type_name<T>();
    std::vector<std::vector<T>> const inits = {{}, {T(1), T(2), T(3)}, {T(0), T(1), T(1)}, {T(1), T(0), T(0.1L)}};
    for (int kind = 0; kind != 7; ++kind)
    for (sz in = 0; in != inits.size(); ++in)
    for (T beta : {T(0.25), T(1)})
    for (T minw : {T(0), T(0.05L)})
    for (sz calls : {sz(3), sz(40), sz(0)})     // 0: iterations of 40 calls with iterations of no call at all in between
    {
        std::string const id = tn + " run kind=" + std::to_string(kind) + " init=" + std::to_string(in) + " beta="
            + vf::dec(beta) + " min=" + vf::dec(minw) + " calls=" + std::to_string(calls);
        if (!r.want(id)) continue;
        r.eval();
        vf::script_engine::table().clear();
        vf::script_engine::salt() = 77 + kind;
        vf::pl_map<T> map;
        map.split = {T(0.25), T(0.5), T(0.75)};
        auto body = [&](auto integrand) {
        auto chk = inits[in].empty() ? hep::make_multi_channel_chkpt<T, vf::script_engine>(minw, beta)
            : hep::make_multi_channel_chkpt<T, vf::script_engine>(inits[in], minw, beta);
        using chk_t = decltype(chk);
        sz const iters = thorough ? 8 : 5;
        std::vector<sz> list(iters, calls ? calls : sz(40));
        if (calls == 0) for (sz k = 1; k < iters; k += 2) list[k] = 0;
        chk = hep::multi_channel(integrand, list, chk, hep::callback<chk_t>(hep::callback_mode::silent));
        auto const& res = chk.results();
        if (res.size() != iters) { r.count("runs_stopped_early"); }
        for (sz k = 0; k != res.size(); ++k)
        {
            auto const& w = res[k].channel_weights();
            std::string const how = id + " iteration " + std::to_string(k);
            r.state();
            check_state(r, w, id, how);
            std::vector<T> const nxt = (k + 1 < res.size()) ? res[k + 1].channel_weights() : chk.channel_weights();
            r.transition();
            check_transition(r, w, res[k].adjustment_data(), minw, beta, nxt, id);
            r.outcome("weights reached in real runs", hash_vec(nxt));
            if (!inits[in].empty())
                for (sz i = 0; i != 3; ++i)
                    if (inits[in][i] == T() && nxt[i] != T())
                        r.violate("disabled-channel-re-enabled", id, how + " -> " + show(nxt));
        }
        };
        if (kind < 4) body(hep::make_multi_channel_integrand<T>(peak_fn<T>{kind}, 1, map, 1, 3));
        else if (kind < 6) body(hep::make_multi_channel_integrand<T>(nonfinite_fn<T>{kind}, 1, map, 1, 3, hep::make_dist_params<T>(4, T(0), T(1), "y")));
        else body(hep::make_multi_channel_integrand<T>(nonfinite_fn<T>{kind}, 1, map, 1, 3));
        r.distinct(vf::hash_str(id));
    }
    vf::script_engine::salt() = 0;
}

// ---- products at the bottom and at the top of the exponent range -------------------------------------
// Direct calls with adjustment data so small (or so large) that the products w x d^beta are subnormal (or close to the
// largest number): the sum is positive, so this is information, and the result must be the documented one.
template <typename T>
static void extreme_products(report& r)
{
    std::string const tn = vf::type_name<T>();
    std::vector<T> const w = {T(0.25), T(0.25), T(0), T(0.5)};
    T const dm = std::numeric_limits<T>::denorm_min(), mn = std::numeric_limits<T>::min(), mx = std::numeric_limits<T>::max();
    struct fam { char const* name; T unit; };
    for (auto const& f : {fam{"subnormal", dm * T(1024)}, fam{"barely-normal", mn}, fam{"just-above-subnormal-reciprocal", T(4) / mx}, fam{"huge", mx / T(1024)}})
    for (T minw : {T(0), T(0.01L)})
    {
        std::string const id = tn + " extreme-products " + f.name + " min=" + vf::dec(minw);
        if (!r.want(id)) continue;
        r.eval(); r.transition();
        // beta = 1: new weight proportional to w x d, here (8, 24, -, 32) x unit -> (2, 6, 0, 16) / 24
        std::vector<T> const d = {T(8) * f.unit, T(24) * f.unit, T(5) * f.unit, T(32) * f.unit};
        auto const nw = hep::multi_channel_refine_weights(w, d, minw, T(1));
        if (!check_state(r, nw, id, id + ": weights " + show(w) + " data " + show(d))) continue;
        long double const want[4] = {2 / 24.0L, 6 / 24.0L, 0, 16 / 24.0L};
        if (nw[2] != T()) r.violate("disabled-channel-re-enabled", id, id + " -> " + show(nw));
        if (minw == T())
            for (sz i = 0; i != 4; ++i)
                if (!(std::fabs(static_cast<long double>(nw[i]) - want[i]) <= 64 * std::numeric_limits<T>::epsilon()))
                { r.violate("update-rule", id, id + ": data " + show(d) + " -> " + show(nw) + ", expected (1/12, 3/12, 0, 8/12)"); break; }
        r.distinct(vf::hash_str(id));
    }
}

// the same chain on mpi_multi_channel under the MPI shim: the weights of iteration k+1 must follow from the
// *reduced* adjustment data recorded in result k, on every rank
template <typename T>
static void mpi_runs(report& r)
{
    std::string const tn = vf::type_name<T>();
    for (int world : {2, 3})
    for (int kind : {0, 1, 2})
    for (T minw : {T(0), T(0.05L)})
    for (int resumed = 0; resumed != 2; ++resumed)     // 1: the MPI run continues a serial run of two iterations
    {
        std::string const id = tn + " mpirun world=" + std::to_string(world) + " kind=" + std::to_string(kind) + " min=" + vf::dec(minw) + (resumed ? " resumed" : "");
        if (!r.want(id)) continue;
        r.eval();
        vf::script_engine::table().clear();
        vf::script_engine::salt() = 88 + kind;
        T const beta = T(0.5);
        vf::pl_map<T> map; map.split = {T(0.25), T(0.5), T(0.75)};
        auto integrand = hep::make_multi_channel_integrand<T>(peak_fn<T>{kind}, 1, map, 1, 3);
        auto fresh = [&]() { return hep::make_multi_channel_chkpt<T, vf::script_engine>(std::vector<T>{T(1), T(0), T(2)}, minw, beta); };
        auto chk0 = fresh();
        auto start = fresh();
        if (resumed) start = hep::multi_channel(integrand, std::vector<sz>{29, 37}, start, vf::never_stop());
        std::vector<std::string> texts(world);
        vf::mpi_env env(world);
        auto out = env.run([&](int rank) {
            // the second iteration leaves ranks without a call, the fourth one has no call at all
            auto c = hep::mpi_multi_channel(MPI_COMM_WORLD, integrand, std::vector<sz>{31, 1, 31, 0, 31}, start, vf::never_stop_mpi());
            std::ostringstream o; c.serialize(o); texts[rank] = o.str();
            if (rank == 0) chk0 = c;
        });
        if (!out.ok) { r.violate("mpi-run-failed", id, id + ": " + out.what); continue; }
        for (int k = 1; k < world; ++k) if (texts[k] != texts[0]) { r.violate("mpi-ranks-hold-different-weights", id, id + ": rank " + std::to_string(k) + " returns a different checkpoint than rank 0"); break; }
        auto const& res = chk0.results();
        for (sz k = 0; k != res.size(); ++k)
        {
            auto const& w = res[k].channel_weights();
            r.state(); r.transition();
            check_state(r, w, id, id + " iteration " + std::to_string(k));
            std::vector<T> const nxt = (k + 1 < res.size()) ? res[k + 1].channel_weights() : chk0.channel_weights();
            check_transition(r, w, res[k].adjustment_data(), minw, beta, nxt, id);
            if (nxt[1] != T()) r.violate("disabled-channel-re-enabled", id, id + " iteration " + std::to_string(k) + " -> " + show(nxt));
        }
        r.distinct(vf::hash_str(id));
    }
    vf::script_engine::salt() = 0;
}

int main(int argc, char** argv)
{
    auto const a = vf::parse_args(argc, argv);
    report r(a);
    // shards: type = shard % 3, parameter group = shard / 3 of nshards / 3 (states with different
    // checkpoint parameters never merge, so the groups are disjoint parts of the state graph)
    int const which = a.nshards == 1 ? -1 : a.shard % 3;
    int const ngroups = a.nshards == 1 ? 1 : a.nshards / 3;
    int const group = a.nshards == 1 ? 0 : a.shard / 3;
    if ((which == -1 || which == 0) && r.want_prefix("float")) { explore<float>(r, a.thorough(), group, ngroups); if (group == 0) { real_runs<float>(r, a.thorough()); mpi_runs<float>(r); extreme_products<float>(r); } }
    if ((which == -1 || which == 1) && r.want_prefix("double")) { explore<double>(r, a.thorough(), group, ngroups); if (group == 0) { real_runs<double>(r, a.thorough()); mpi_runs<double>(r); extreme_products<double>(r); } }
    if ((which == -1 || which == 2) && r.want_prefix("long double")) { explore<long double>(r, a.thorough(), group, ngroups); if (group == 0) { real_runs<long double>(r, a.thorough()); mpi_runs<long double>(r); extreme_products<long double>(r); } }
    return r.finish();
}
