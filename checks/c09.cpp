// C09 — channel selection follows the weights exactly and never picks a disabled channel.
//  A. hep::discrete_distribution under a scripted engine: every critical canonical value
//     (0, smallest positive, every cumulative boundary with its neighbours, largest below 1)
//     for all weight vectors of length 1..4 over an alphabet with zeros.
//  B. exhaustive value sweep: an 8-bit odometer engine makes generate_canonical<float,24> produce
//     every k/2^24 exactly once; per-channel counts must equal the interval lengths.
//  C. the same critical values as the channel draw inside hep::multi_channel_iteration.
#include "common.hpp"
#include "engines.hpp"

#include "hep/mc.hpp"

#include <algorithm>
#include <cmath>

using vf::report;
typedef std::size_t sz;

template <typename T>
static std::vector<long double> cumulative(std::vector<T> const& w)
{
    long double sum = 0;
    for (T v : w) sum += static_cast<long double>(v);
    std::vector<long double> c;
    long double acc = 0;
    for (T v : w) { acc += static_cast<long double>(v); c.push_back(acc / sum); }
    return c;
}

// candidate raw engine outputs around every critical canonical value
template <typename T>
static std::vector<std::uint64_t> critical_raws(std::vector<long double> const& c)
{
    std::vector<std::uint64_t> raws = {0, 1, 2, ~std::uint64_t(0), ~std::uint64_t(0) - 1,
        vf::raw_for<T>(std::nextafter(T(1), T(0))), std::uint64_t(1) << 63};
    long double const two64 = 18446744073709551616.0L;
    for (long double ci : c)
    {
        if (ci >= 1.0L) continue;
        // raw neighbours on the 2^-64 lattice
        long double const s = std::floor(ci * two64);
        for (int d = -3; d <= 3; ++d)
        {
            long double const v = s + d;
            if (v >= 0 && v < two64) raws.push_back(static_cast<std::uint64_t>(v));
        }
        // neighbours on the lattice of T
        T t = static_cast<T>(ci);
        T lo = t, hi = t;
        for (int d = 0; d <= 1024; ++d)
        {
            // steps 0..3 and then 16, 64, 256, 1024 units in the last place away from the boundary
            if (d > 3 && d != 16 && d != 64 && d != 256 && d != 1024) { lo = std::nextafter(lo, T(-1)); hi = std::nextafter(hi, T(2)); continue; }
            for (T cand : {lo, hi})
            {
                long double const sc = std::ldexp(static_cast<long double>(cand), 64);
                if (cand >= T(0) && cand < T(1) && sc == std::floor(sc))
                {
                    auto const x = static_cast<std::uint64_t>(sc);
                    if (T(x) / T(two64) == cand) raws.push_back(x);
                }
            }
            lo = std::nextafter(lo, T(-1));
            hi = std::nextafter(hi, T(2));
        }
    }
    std::sort(raws.begin(), raws.end());
    raws.erase(std::unique(raws.begin(), raws.end()), raws.end());
    return raws;
}

// True if the cumulative normalised weights are exactly representable in T whatever way they are computed:
// every partial sum is exact (error-free transformation: the rounding error of a + b is (a + b) - a - b, itself
// exact in round-to-nearest) and the total is a power of two, so that the normalisation is exact as well.
// For such vectors the intervals are known exactly and the oracle needs no tolerance.
template <typename T>
static bool sums_exact(std::vector<T> const& w)
{
    T acc = T();
    for (T v : w)
    {
        T const t = acc + v;
        T const bv = t - acc;
        T const err = (acc - (t - bv)) + (v - bv);
        if (err != T()) return false;
        acc = t;
    }
    int e = 0;
    return acc > T() && std::frexp(acc, &e) == T(0.5) && acc >= std::numeric_limits<T>::min();
}

// oracle: is `channel` an acceptable selection for canonical value u?
template <typename T>
static std::string judge(std::vector<T> const& w, std::vector<long double> const& c, T u, sz channel,
    std::string& key)
{
    long double const delta = sums_exact(w) ? 0.0L : 8 * static_cast<long double>(std::numeric_limits<T>::epsilon());
    std::ostringstream o;
    if (channel >= w.size())
    {
        key = "index-out-of-range";
        o << "selected index " << channel << " for " << w.size() << " channels";
        return o.str();
    }
    if (w[channel] == T())
    {
        key = (u == T()) ? "disabled-channel-selected-at-u=0" : "disabled-channel-selected";
        o << "selected channel " << channel << " whose weight is zero";
        return o.str();
    }
    long double const lo = channel == 0 ? 0.0L : c[channel - 1];
    long double const hi = c[channel];
    long double const uu = static_cast<long double>(u);
    if (uu < lo - delta || uu > hi + delta || (delta == 0 && uu >= hi))
    {
        key = "wrong-interval";
        o << "selected channel " << channel << " with interval [" << vf::dec(lo) << ", " << vf::dec(hi)
          << ") for u=" << vf::dec(uu);
        return o.str();
    }
    return "";
}

template <typename T>
static void part_a_vector(report& r, std::vector<T> const& w)
{
    sz const len = w.size();
    bool haszero = false;
    for (T v : w) haszero |= v == T();
    std::string const wid = std::string("dd ") + vf::type_name<T>() + " w=" + vf::join_dec(w);
    if (!r.want_prefix(wid.substr(0, 3))) return;
    auto const c = cumulative(w);
    hep::discrete_distribution<sz, T> dist(w.begin(), w.end());
    for (std::uint64_t x : critical_raws<T>(c))
    {
        std::string const id = wid + " x=" + std::to_string(x);
        if (!r.want(id)) continue;
        r.eval();
        vf::script_engine::table() = {x};
        vf::script_engine e1, e2;
        T const u = std::generate_canonical<T, std::numeric_limits<T>::digits>(e1);
        sz const ch = dist(e2);
        std::string key;
        std::string const bad = judge(w, c, u, ch, key);
        if (!bad.empty()) r.violate(key, id, wid + " u=" + vf::dec(u) + ": " + bad);
        if (haszero) r.distinct(vf::hash_str(id));
        r.outcome("selected (len,channel)", (len << 8) | ch);
    }
}

template <typename T>
static void part_a(report& r, std::vector<T> const& alphabet, sz max_len)
{
    for (sz len = 1; len <= max_len; ++len)
    {
        std::vector<sz> idx(len, 0);
        for (;;)
        {
            std::vector<T> w(len);
            bool nonzero = false, haszero = false;
            for (sz i = 0; i != len; ++i) { w[i] = alphabet[idx[i]]; nonzero |= w[i] != T(); haszero |= w[i] == T(); }
            if (nonzero)
            {
                std::string const wid = std::string("dd ") + vf::type_name<T>() + " w=" + vf::join_dec(w);
                if (r.want_prefix(wid.substr(0, 3)))
                {
                    auto const c = cumulative(w);
                    hep::discrete_distribution<sz, T> dist(w.begin(), w.end());
                    for (std::uint64_t x : critical_raws<T>(c))
                    {
                        std::string const id = wid + " x=" + std::to_string(x);
                        if (!r.want(id)) continue;
                        r.eval();
                        vf::script_engine::table() = {x};
                        vf::script_engine e1, e2;
                        T const u = std::generate_canonical<T, std::numeric_limits<T>::digits>(e1);
                        std::uint64_t const before = vf::script_engine::draws();
                        sz const ch = dist(e2);
                        std::uint64_t const used = vf::script_engine::draws() - before;
                        std::string key;
                        std::string const bad = judge(w, c, u, ch, key);
                        if (!bad.empty()) r.violate(key, id, wid + " u=" + vf::dec(u) + ": " + bad);
                        if (used != 1) r.violate("not-exactly-one-canonical-number", id, wid + ": " + std::to_string(used) + " raw draws");
                        if (haszero) r.distinct(vf::hash_str(id));
                        r.outcome("selected (len,channel)", (len << 8) | ch);
                        if (r.wants_sample() && haszero && u == T()) r.sample(id + " -> channel " + std::to_string(ch));
                    }
                }
            }
            sz k = 0;
            while (k != len && ++idx[k] == alphabet.size()) { idx[k] = 0; ++k; }
            if (k == len) break;
        }
    }
}

// ---- part B ---------------------------------------------------------------------------------------

struct odometer_engine
{
    using result_type = unsigned;
    static constexpr result_type min() { return 0; }
    static constexpr result_type max() { return 255; }
    static std::uint32_t& value() { static std::uint32_t v = 0; return v; }
    static unsigned& digit() { static unsigned d = 0; return d; }
    result_type operator()()
    {
        unsigned const d = digit()++;
        return (value() >> (8 * d)) & 255u;
    }
};

static void part_b(report& r, std::vector<float> const& w)
{
    std::string const id = "sweep float w=" + vf::join_dec(w);
    if (!r.want(id)) return;
    auto const c = cumulative(w);
    hep::discrete_distribution<sz, float> dist(w.begin(), w.end());
    std::vector<std::uint64_t> counts(w.size() + 1, 0);
    odometer_engine e;
    std::uint64_t draws_bad = 0;
    for (std::uint32_t k = 0; k != (1u << 24); ++k)
    {
        odometer_engine::value() = k;
        odometer_engine::digit() = 0;
        sz const ch = dist(e);
        if (odometer_engine::digit() != 3) ++draws_bad;
        ++counts[std::min(ch, w.size())];
    }
    r.eval(1u << 24);
    r.count("sweep_values", 1u << 24);
    if (draws_bad) r.violate("not-exactly-one-canonical-number", id, std::to_string(draws_bad) + " selections did not consume 3 draws of the 8-bit engine");
    if (counts[w.size()]) r.violate("index-out-of-range", id, std::to_string(counts[w.size()]) + " selections past the last channel");
    bool haszero = false;
    for (sz i = 0; i != w.size(); ++i)
    {
        long double const lo = i == 0 ? 0.0L : c[i - 1];
        long double const want = (c[i] - lo) * 16777216.0L;
        long double const got = counts[i];
        haszero |= w[i] == 0;
        if (w[i] == 0 && counts[i] != 0)
        {
            r.violate(counts[i] == 1 ? "disabled-channel-selected-at-u=0" : "disabled-channel-selected", id,
                "channel " + std::to_string(i) + " has weight zero but was selected for " + std::to_string(counts[i]) + " of the 2^24 values");
        }
        else if (!(std::fabs(got - want) <= 20))
        {
            r.violate("wrong-interval", id, "channel " + std::to_string(i) + " selected for " + std::to_string(counts[i])
                + " of 2^24 equidistant values, interval length corresponds to " + vf::dec(want));
        }
    }
    r.distinct(vf::hash_str(id));
    r.outcome("sweep counts", vf::fnv1a(counts.data(), counts.size() * sizeof(counts[0])));
    if (r.wants_sample()) r.sample(id + " -> counts " + vf::join(counts));
}

// ---- part C ---------------------------------------------------------------------------------------

template <typename T>
struct chan_log
{
    static std::vector<sz>& map_channels() { static std::vector<sz> v; return v; }
    static std::vector<sz>& fn_channels() { static std::vector<sz> v; return v; }
    static std::vector<std::vector<sz>>& enabled() { static std::vector<std::vector<sz>> v; return v; }
};

template <typename T>
struct c_map
{
    T operator()(sz channel, std::vector<T> const& rn, std::vector<T>& coords, std::vector<sz> const& enabled,
        std::vector<T>& densities, hep::multi_channel_map action)
    {
        if (action == hep::multi_channel_map::calculate_coordinates)
        {
            chan_log<T>::map_channels().push_back(channel);
            chan_log<T>::enabled().push_back(enabled);
            coords[0] = rn[0];
            return T(1);
        }
        for (auto& d : densities) d = T(1);
        return T(1);
    }
};

template <typename T>
struct c_fn
{
    T operator()(hep::multi_channel_point<T> const& p) const
    {
        chan_log<T>::fn_channels().push_back(p.channel());
        return T(1);
    }
};

template <typename T>
static void part_c(report& r, std::vector<T> const& raw_w)
{
    T sum = T();
    for (T v : raw_w) sum += v;
    std::vector<T> w;
    for (T v : raw_w) w.push_back(v / sum);
    T check = T();
    for (T v : w) check += v;
    auto const c = cumulative(w);
    auto const raws = critical_raws<T>(c);
    std::string const id = std::string("mc ") + vf::type_name<T>() + " w=" + vf::join_dec(w);
    if (!r.want(id)) return;
    r.eval(raws.size());
    auto& table = vf::script_engine::table();
    table.clear();
    for (auto x : raws) { table.push_back(std::uint64_t(1) << 62); table.push_back(x); }
    chan_log<T>::map_channels().clear();
    chan_log<T>::fn_channels().clear();
    chan_log<T>::enabled().clear();
    vf::script_engine gen;
    auto const res = hep::multi_channel_iteration(
        hep::make_multi_channel_integrand<T>(c_fn<T>(), 1, c_map<T>(), 1, w.size()), raws.size(), w, gen);
    (void)res;
    auto const& mc = chan_log<T>::map_channels();
    auto const& fc = chan_log<T>::fn_channels();
    if (mc.size() != raws.size() || fc.size() != raws.size())
    {
        r.violate("call-count", id, "map/integrand called " + std::to_string(mc.size()) + "/" + std::to_string(fc.size())
            + " times for " + std::to_string(raws.size()) + " calls");
        return;
    }
    std::vector<sz> want_enabled;
    bool haszero = false;
    for (sz i = 0; i != w.size(); ++i) { if (w[i] != T()) want_enabled.push_back(i); else haszero = true; }
    for (sz k = 0; k != raws.size(); ++k)
    {
        vf::script_engine::table() = {raws[k]};
        vf::script_engine e1;
        T const u = std::generate_canonical<T, std::numeric_limits<T>::digits>(e1);
        std::string key;
        std::string bad = judge(w, c, u, mc[k], key);
        if (bad.empty() && fc[k] != mc[k]) { key = "map-and-integrand-see-different-channels"; bad = "map saw " + std::to_string(mc[k]) + ", integrand saw " + std::to_string(fc[k]); }
        if (bad.empty() && chan_log<T>::enabled()[k] != want_enabled) { key = "enabled-list-wrong"; bad = "enabled channels passed to the map: " + vf::join(chan_log<T>::enabled()[k]); }
        if (!bad.empty()) r.violate(key, id, id + " call " + std::to_string(k) + " channel draw x=" + std::to_string(raws[k]) + " u=" + vf::dec(u) + ": " + bad);
        r.outcome("mc selected", (w.size() << 8) | mc[k]);
    }
    if (haszero) r.distinct(vf::hash_str(id));
}

template <typename T>
static void all_for_type(report& r, bool thorough)
{
    std::vector<T> const alphabet = {T(0), T(1), T(2), T(3), T(0.1L), T(1) / T(3), T(1e-3L)};
    part_a<T>(r, alphabet, 4);

    // long weight vectors (5..48 channels): all equal, one zero at every position, alternating zeros, increasing
    for (sz len = 5; len <= 48; ++len)
    {
        std::vector<std::vector<T>> pats;
        pats.push_back(std::vector<T>(len, T(1)));
        { std::vector<T> w(len); for (sz i = 0; i != len; ++i) w[i] = T(i + 1); pats.push_back(w); }
        { std::vector<T> w(len, T(1)); for (sz i = 0; i < len; i += 2) w[i] = T(0); pats.push_back(w); }
        for (sz z = 0; z != len; ++z) { std::vector<T> w(len, T(1)); w[z] = T(0); if (z + 1 < len) w[z + 1] = T(3); pats.push_back(w); }
        for (auto const& w : pats) part_a_vector<T>(r, w);
    }

    // channels of the smallest possible relative weight next to the end of the unit interval (the boundary is the
    // largest canonical value itself), and weight vectors whose total is subnormal or barely normal
    {
        T const eps = std::numeric_limits<T>::epsilon(), dm = std::numeric_limits<T>::denorm_min(), mn = std::numeric_limits<T>::min();
        std::vector<std::vector<T>> const pats = {
            {T(1) - eps / 2, eps / 2}, {T(1) - eps / 2, eps / 2, T(0)}, {T(1) - eps / 2, T(0), eps / 2}, {T(1) - eps, eps / 2, eps / 2}, {T(1) - eps, eps},
            {eps / 2, T(1) - eps / 2}, {T(0.5), T(0.5) - eps / 2, eps / 2}, {T(2) - eps, eps}, {T(2) - eps, T(0), eps, T(0)},
            {dm, dm}, {dm, T(0), dm}, {dm, dm, 2 * dm}, {3 * dm, 5 * dm}, {mn / 4, T(0), mn / 4}, {mn / 2, mn / 4, mn / 4}, {mn / 2, mn / 2}, {mn, mn},
            {T(1e-40L), T(2e-40L), T(0), T(1e-40L)}, {mn * T(0.75), mn * T(0.125)}, {mn, T(0), 3 * mn},
        };
        for (auto const& w : pats) { bool ok = true; for (T v : w) ok = ok && v >= T(); if (ok) part_a_vector<T>(r, w); }
    }

    if (r.want_prefix("mc "))
    {
        std::vector<T> const small = {T(0), T(1), T(2), T(3)};
        for (sz len = 1; len <= 4; ++len)
        {
            std::vector<sz> idx(len, 0);
            for (;;)
            {
                std::vector<T> w(len);
                bool nonzero = false;
                for (sz i = 0; i != len; ++i) { w[i] = small[idx[i]]; nonzero |= w[i] != T(); }
                if (nonzero) part_c<T>(r, w);
                sz k = 0;
                while (k != len && ++idx[k] == small.size()) { idx[k] = 0; ++k; }
                if (k == len) break;
            }
        }
        // weights that are tiny but not zero: such a channel is enabled (it can be selected, and the map is told so)
        T const eps = std::numeric_limits<T>::epsilon(), mn = std::numeric_limits<T>::min();
        for (auto const& w : std::vector<std::vector<T>>{{eps / 4, T(0.5), T(0.5)}, {T(0.5), eps / 2, T(0.5)}, {T(1), T(0), eps}, {eps * eps, T(1)}, {T(1), mn}, {mn, T(0), T(1)},
            {T(1), eps / 2, T(0), eps / 2}})
            part_c<T>(r, w);
    }
}

int main(int argc, char** argv)
{
    auto const a = vf::parse_args(argc, argv);
    report r(a);

    all_for_type<float>(r, a.thorough());
    all_for_type<double>(r, a.thorough());
    all_for_type<long double>(r, a.thorough());

    if (r.want_prefix("sweep"))
    {
        std::vector<std::vector<float>> ws = {
            {0.f, 1.f, 1.f}, {1.f, 0.f, 2.f}, {1.f, 2.f, 0.f}, {0.1f, 0.2f, 0.3f, 0.4f},
        };
        if (a.thorough())
        {
            std::vector<float> const alpha = {0.f, 1.f, 3.f, 0.001f};
            for (float x : alpha) for (float y : alpha) for (float z : alpha)
                if (x + y + z != 0) ws.push_back({x, y, z});
            ws.push_back({0.f, 0.f, 0.f, 1.f});
            ws.push_back({1.f});
            ws.push_back({0.f, 1.f});
            ws.push_back({1.f / 3, 1.f / 3, 1.f / 3});
        }
        for (auto const& w : ws)
        {
            part_b(r, w);
            if (r.deadline_hit()) break;
        }
    }
    return r.finish();
}
