// C10 — every call consumes a fixed, predictable amount of generator output.
// Full product T x nine standard engines x {PLAIN, VEGAS, MULTI-CHANNEL} x dimensions x calls x
// integrand patterns x {default, user grid / weights with a disabled channel} with a counting
// engine wrapper; the stored generator against discard(); and libstdc++'s generate_canonical against
// hep::random_number_usage for every engine range R in 2..4096, 2^k, 2^k+-1.
#include "common.hpp"
#include "engines.hpp"
#include "mcmodel.hpp"
#include "mpienv.hpp"

#include "hep/mc.hpp"
#include "hep/mc-mpi.hpp"
#include "hep/mc/generator_helper.hpp"

#include <cmath>

using vf::report;
typedef std::size_t sz;

static std::vector<std::uint64_t>* g_marks = nullptr;     // draw counter at every integrand call
static std::uint64_t (*g_draws)() = nullptr;

template <typename T>
struct pattern_fn
{
    int pattern;   // 0 all zero, 1 finite, 2 NaN, 3 mixed
    mutable sz n = 0;
    T value() const
    {
        sz const k = n++;
        if (g_marks) g_marks->push_back(g_draws());
        switch (pattern)
        {
        case 0: return T();
        case 1: return T(1.5);
        case 2: return std::numeric_limits<T>::quiet_NaN();
        default: return k % 3 == 0 ? T() : (k % 3 == 1 ? T(2) : std::numeric_limits<T>::infinity());
        }
    }
    T operator()(hep::mc_point<T> const&) const { return value(); }
};

template <typename T>
struct pattern_mc_fn
{
    pattern_fn<T> inner;
    bool touch_weight;
    T operator()(hep::multi_channel_point<T> const& p) const
    {
        if (touch_weight) (void) p.weight();
        return inner.value();
    }
};

// records the generator of the checkpoint at every callback invocation (MPI form)
template <typename E>
struct gen_recorder
{
    std::vector<E>* gens;
    template <typename C> bool operator()(MPI_Comm, C const& c) const { gens->push_back(c.generator()); return true; }
};

template <typename E> static std::uint64_t draws_of() { return vf::counting<E>::draws(); }

template <typename T, typename E>
static void judge(report& r, std::string const& id, sz calls, sz numbers_per_call, std::vector<std::uint64_t> const& marks,
    std::uint64_t total)
{
    sz const usage = hep::random_number_usage<T, E>();
    std::uint64_t const per_call = numbers_per_call * usage;
    if (total != calls * per_call)
        r.violate("draws-per-iteration", id, id + ": " + std::to_string(total) + " raw draws, predicted calls x numbers x usage = "
            + std::to_string(calls) + " x " + std::to_string(numbers_per_call) + " x " + std::to_string(usage));
    if (marks.size() != calls) { r.violate("wrong-number-of-calls", id, id + ": " + std::to_string(marks.size()) + " integrand calls"); return; }
    // When the engine is advanced is the library's business (it may draw the numbers of several points ahead);
    // what a call needs must have been drawn when the integrand sees the point, and nothing beyond the
    // iteration's budget may ever be drawn.
    for (sz k = 0; k != marks.size(); ++k)
    {
        if (marks[k] < (k + 1) * per_call || marks[k] > calls * per_call)
        {
            r.violate("draws-per-call-not-constant", id, id + ": when call " + std::to_string(k) + " ran, " + std::to_string(marks[k])
                + " raw draws had been made; " + std::to_string(k + 1) + " calls need " + std::to_string((k + 1) * per_call) + ", the iteration " + std::to_string(calls * per_call));
            break;
        }
    }
    r.outcome("usage (digits,log2R)->k", (std::uint64_t(std::numeric_limits<T>::digits) << 16) ^ (usage << 8) ^ numbers_per_call);
}

template <typename T, typename E>
static void product(report& r)
{
    using CE = vf::counting<E>;
    std::string const base = std::string(vf::type_name<T>()) + " " + vf::engine_name<E>();
    if (!r.want_prefix(base.substr(0, std::min(base.size(), r.a().replay_case.size())))) return;
    g_draws = &draws_of<E>;
    for (sz d = 1; d <= 3; ++d)
    for (sz calls : {sz(0), sz(1), sz(2), sz(5)})
    for (int pat = 0; pat != 4; ++pat)
    for (int user = 0; user != 3; ++user)
    {
        std::string const cfg = " d=" + std::to_string(d) + " calls=" + std::to_string(calls) + " pattern=" + std::to_string(pat)
            + " user=" + std::to_string(user);
        std::vector<std::uint64_t> marks;
        // PLAIN (user=1 is the same as user=0 for PLAIN: only run once)
        if (user == 0 && r.want(base + " plain" + cfg))
        {
            r.eval();
            CE gen; gen.seed(12345);
            marks.clear(); g_marks = &marks; CE::draws() = 0;
            (void) hep::plain_iteration(hep::make_integrand<T>(pattern_fn<T>{pat}, d), calls, gen);
            g_marks = nullptr;
            judge<T, E>(r, base + " plain" + cfg, calls, d, marks, CE::draws());
            if (calls && pat) r.distinct(vf::hash_str(base + " plain" + cfg));
        }
        if (user != 2 && r.want(base + " vegas" + cfg))
        {
            r.eval();
            CE gen; gen.seed(999);
            hep::vegas_pdf<T> pdf(d, 4);
            if (user) for (sz k = 0; k != d; ++k) { pdf.set_bin_left(k, 1, T(0.01L)); pdf.set_bin_left(k, 3, T(0.99L)); }
            marks.clear(); g_marks = &marks; CE::draws() = 0;
            (void) hep::vegas_iteration(hep::make_integrand<T>(pattern_fn<T>{pat}, d), calls, pdf, gen);
            g_marks = nullptr;
            judge<T, E>(r, base + " vegas" + cfg, calls, d, marks, CE::draws());
            if (calls && pat) r.distinct(vf::hash_str(base + " vegas" + cfg));
        }
        for (int touch = 0; touch != 2; ++touch)
        {
            std::string const id = base + " multi_channel" + cfg + " touch=" + std::to_string(touch);
            if (!r.want(id)) continue;
            r.eval();
            CE gen; gen.seed(4711);
            vf::pl_map<T> map;
            map.split = {T(0.25), T(0.5), T(0.75)};
            map.dims = d;
            std::vector<T> const w = user == 2 ? std::vector<T>{T(0), T(1), T(0)}
                : user ? std::vector<T>{T(0), T(0.25), T(0.75)} : std::vector<T>{T(1) / 3, T(1) / 3, T(1) / 3};
            marks.clear(); g_marks = &marks; CE::draws() = 0;
            (void) hep::multi_channel_iteration(
                hep::make_multi_channel_integrand<T>(pattern_mc_fn<T>{pattern_fn<T>{pat}, touch != 0}, d, map, d, 3), calls, w, gen);
            g_marks = nullptr;
            judge<T, E>(r, id, calls, d + 1, marks, CE::draws());
            if (calls && pat) r.distinct(vf::hash_str(id));
        }
    }

    // a multi-channel integrand with exactly one channel still draws the channel number
    for (sz calls : {sz(1), sz(4)})
    for (int pat : {0, 1, 3})
    {
        std::string const id = base + " single_channel calls=" + std::to_string(calls) + " pattern=" + std::to_string(pat);
        if (!r.want(id)) continue;
        r.eval();
        CE gen; gen.seed(31);
        vf::pl_map<T> map; map.split = {T(0.5)}; map.dims = 2;
        std::vector<std::uint64_t> marks;
        marks.clear(); g_marks = &marks; CE::draws() = 0;
        (void) hep::multi_channel_iteration(hep::make_multi_channel_integrand<T>(pattern_mc_fn<T>{pattern_fn<T>{pat}, false}, 2, map, 2, 1), calls, std::vector<T>{T(1)}, gen);
        g_marks = nullptr;
        judge<T, E>(r, id, calls, 3, marks, CE::draws());
        r.distinct(vf::hash_str(id));
    }

    // with distributions and more coordinates than random numbers (map_dimensions != dimensions)
    for (sz calls : {sz(2), sz(5)})
    {
        std::string const id = base + " wide_map_with_distribution calls=" + std::to_string(calls);
        if (!r.want(id)) continue;
        r.eval();
        CE gen; gen.seed(77);
        struct wide
        {
            T operator()(sz, std::vector<T> const& rn, std::vector<T>& coords, std::vector<sz> const&, std::vector<T>& dens, hep::multi_channel_map action) const
            {
                if (action == hep::multi_channel_map::calculate_coordinates) { for (sz k = 0; k != coords.size(); ++k) coords[k] = rn[0] / T(k + 1); return T(1); }
                for (auto& dd : dens) dd = T(1);
                return T(1);
            }
        };
        struct wide_fn
        {
            T operator()(hep::multi_channel_point<T> const& p, hep::projector<T>& proj) const
            {
                if (g_marks) g_marks->push_back(g_draws());
                proj.add(0, p.coordinates()[0], T(1));
                return T(1.5);
            }
        };
        std::vector<std::uint64_t> marks;
        g_marks = &marks; CE::draws() = 0;
        (void) hep::multi_channel_iteration(hep::make_multi_channel_integrand<T>(wide_fn(), 1, wide(), 3, 2, hep::make_dist_params<T>(2, T(0), T(1), "d")), calls,
            std::vector<T>{T(0.5), T(0.5)}, gen);
        g_marks = nullptr;
        judge<T, E>(r, id, calls, 2, marks, CE::draws());
        r.distinct(vf::hash_str(id));
    }

    // stored generator == initial generator advanced by calls x per-call (plain standard engine)
    for (sz d : {sz(1), sz(3)})
    for (int pat : {1, 3})
    {
        std::vector<sz> const its = {3, 0, 5};
        sz const usage = hep::random_number_usage<T, E>();
        typedef vf::never_stop never;
        auto check = [&](std::string const& id, sz numbers, std::vector<E> const& gens) {
            r.eval();
            E ref; ref.seed(2024);
            bool ok = gens.size() == its.size() + 1 && gens[0] == ref;
            for (sz k = 0; ok && k != its.size(); ++k) { ref.discard(its[k] * numbers * usage); ok = gens[k + 1] == ref; }
            if (!ok) r.violate("stored-generator-not-advanced-by-prediction", id, id + ": generator stored after an iteration differs from the initial one advanced by calls x numbers x usage");
            r.distinct(vf::hash_str(id));
        };
        E g0; g0.seed(2024);
        std::string const cfg = " d=" + std::to_string(d) + " pattern=" + std::to_string(pat);
        if (r.want(base + " plain stored" + cfg))
        {
            std::vector<E> gens = {g0};
            auto chk = hep::make_plain_chkpt<T, E>(g0);
            for (sz k = 0; k != its.size(); ++k)
            {
                chk = hep::plain(hep::make_integrand<T>(pattern_fn<T>{pat}, d), std::vector<sz>{its[k]}, chk, never());
                gens.push_back(chk.generator());
            }
            check(base + " plain stored" + cfg, d, gens);
        }
        if (r.want(base + " vegas stored" + cfg))
        {
            std::vector<E> gens = {g0};
            auto chk = hep::make_vegas_chkpt<T, E>(4, T(0.75), g0);
            for (sz k = 0; k != its.size(); ++k)
            {
                chk = hep::vegas(hep::make_integrand<T>(pattern_fn<T>{pat}, d), std::vector<sz>{its[k]}, chk, never());
                gens.push_back(chk.generator());
            }
            check(base + " vegas stored" + cfg, d, gens);
        }
        if (r.want(base + " multi_channel stored" + cfg))
        {
            std::vector<E> gens = {g0};
            vf::pl_map<T> map; map.split = {T(0.25), T(0.5), T(0.75)}; map.dims = d;
            auto chk = hep::make_multi_channel_chkpt<T, E>(std::vector<T>{T(0), T(1), T(3)}, T(0.0078125), T(0.5), g0);
            for (sz k = 0; k != its.size(); ++k)
            {
                chk = hep::multi_channel(hep::make_multi_channel_integrand<T>(pattern_mc_fn<T>{pattern_fn<T>{pat}, false}, d, map, d, 3),
                    std::vector<sz>{its[k]}, chk, never());
                gens.push_back(chk.generator());
            }
            check(base + " multi_channel stored" + cfg, d + 1, gens);
        }
        // the same for the MPI integrators under the shim: on every rank, after every iteration
        if (d == 1 && pat == 1 && r.want(base + " mpi stored"))
        {
            std::vector<sz> const list = {7, 0, 5, 2};
            // kinds 3 and 4: mpi_vegas / mpi_multi_channel again, in the same process, with the same types but three
            // dimensions (what a call needs depends on run-time properties of the integrand)
            // kind 5: mpi_multi_channel with one random number mapped to three coordinates (map_dimensions != dimensions)
            struct wide2
            {
                T operator()(sz, std::vector<T> const& rn, std::vector<T>& coords, std::vector<sz> const&, std::vector<T>& dens, hep::multi_channel_map action) const
                {
                    if (action == hep::multi_channel_map::calculate_coordinates) { for (sz k = 0; k != coords.size(); ++k) coords[k] = rn[0] / T(k + 1); return T(1); }
                    for (auto& dd : dens) dd = T(1);
                    return T(1);
                }
            };
            struct wide2_fn { T operator()(hep::multi_channel_point<T> const& p) const { return T(1) + p.coordinates()[2]; } };
            for (int kind = 0; kind != 6; ++kind)
            {
                int const world = 3;
                sz const dm = (kind == 3 || kind == 4) ? 3 : 1;
                int const base_kind = kind == 5 ? 2 : kind >= 3 ? kind - 2 : kind;
                std::vector<std::vector<E>> gens(world);
                vf::mpi_env env(world);
                vf::pl_map<T> map; map.split = {T(0.25), T(0.5), T(0.75)}; map.dims = dm;
                auto out = env.run([&](int rank) {
                    gens[rank].clear();
                    gen_recorder<E> rec{&gens[rank]};
                    if (base_kind == 0) (void) hep::mpi_plain(MPI_COMM_WORLD, hep::make_integrand<T>(pattern_fn<T>{pat}, dm), list, hep::make_plain_chkpt<T, E>(g0), rec);
                    else if (base_kind == 1) (void) hep::mpi_vegas(MPI_COMM_WORLD, hep::make_integrand<T>(pattern_fn<T>{pat}, dm), list, hep::make_vegas_chkpt<T, E>(4, T(0.75), g0), rec);
                    else if (kind == 5) (void) hep::mpi_multi_channel(MPI_COMM_WORLD, hep::make_multi_channel_integrand<T>(wide2_fn(), 1, wide2(), 3, 2), list,
                        hep::make_multi_channel_chkpt<T, E>(std::vector<T>{T(1), T(3)}, T(0.0078125), T(0.5), g0), rec);
                    else (void) hep::mpi_multi_channel(MPI_COMM_WORLD, hep::make_multi_channel_integrand<T>(pattern_mc_fn<T>{pattern_fn<T>{pat}, false}, dm, map, dm, 3), list,
                        hep::make_multi_channel_chkpt<T, E>(std::vector<T>{T(0), T(1), T(3)}, T(0.0078125), T(0.5), g0), rec);
                });
                std::string const id = base + " mpi stored kind=" + std::to_string(kind);
                r.eval();
                if (!out.ok) { r.violate("mpi-run-failed", id, id + ": " + out.what); continue; }
                for (int k = 0; k != world; ++k)
                {
                    E ref; ref.seed(2024);
                    bool ok = gens[k].size() == list.size();
                    for (sz i = 0; ok && i != list.size(); ++i) { ref.discard(list[i] * (base_kind == 2 ? dm + 1 : dm) * usage); ok = gens[k][i] == ref; }
                    if (!ok) { r.violate("stored-generator-not-advanced-by-prediction", id, id + ": rank " + std::to_string(k) + " stores a generator that differs from the initial one advanced by calls x numbers x usage"); break; }
                }
                r.distinct(vf::hash_str(id));
            }
        }
    }
}

// ---- engine ranges -----------------------------------------------------------------------------------

template <typename T>
static void ranges(report& r)
{
    std::string const tn = vf::type_name<T>();
    std::vector<std::pair<std::uint64_t, std::uint64_t>> rs;   // (R-1, min)
    for (std::uint64_t off : {0ull, 1ull, 5ull})
    {
        for (std::uint64_t R = 2; R <= 4096; ++R) rs.push_back({R - 1, off});
        for (int k = 13; k <= 63; ++k)
            for (int dlt = -1; dlt <= 1; ++dlt) rs.push_back({(std::uint64_t(1) << k) + dlt - 1, off});
    }
    rs.push_back({~std::uint64_t(0), 0});          // R = 2^64
    rs.push_back({~std::uint64_t(0) - 1, 0});      // R = 2^64 - 1
    rs.push_back({~std::uint64_t(0) - 6, 5});
    for (auto const& pr : rs)
    {
        std::string const id = tn + " range R-1=" + std::to_string(pr.first) + " min=" + std::to_string(pr.second);
        if (!r.want(id)) continue;
        r.eval();
        vf::range_engine::lo() = pr.second;
        vf::range_engine::hi() = pr.second + pr.first;
        vf::range_engine::table().clear();
        vf::range_engine e;
        sz const usage = hep::random_number_usage<T, vf::range_engine>();
        vf::range_engine::draws() = 0;
        T const u = std::generate_canonical<T, std::numeric_limits<T>::digits>(e);
        std::uint64_t const one = vf::range_engine::draws();
        if (one != usage)
        {
            std::string tkey = tn;
            for (auto& ch : tkey) if (ch == ' ') ch = '_';
            long double const rr = static_cast<long double>(pr.first) + 1.0L;
            r.violate("usage-predictor-differs-from-generate_canonical/" + tkey + "/R=" + vf::dec(rr), id, id + ": generate_canonical drew "
                + std::to_string(one) + " raw numbers, random_number_usage predicts " + std::to_string(usage));
            r.distinct(vf::hash_str(id));
            continue;   // the integrator run below would only repeat the same finding
        }
        if (!(u >= T() && u < T(1))) r.violate("canonical-outside-unit-interval", id, id + ": " + vf::dec(u));
        // through an integrator for a subset
        if (pr.first < 40 || (pr.first & (pr.first + 1)) == 0)
        {
            vf::range_engine g;
            vf::range_engine::draws() = 0;
            (void) hep::plain_iteration(hep::make_integrand<T>(pattern_fn<T>{3}, 2), 3, g);
            if (vf::range_engine::draws() != 3 * 2 * usage)
                r.violate("draws-per-iteration", id, id + ": plain_iteration drew " + std::to_string(vf::range_engine::draws()) + ", predicted " + std::to_string(6 * usage));
        }
        r.distinct(vf::hash_str(id));
        r.outcome("range usage", (std::uint64_t(std::numeric_limits<T>::digits) << 8) ^ usage);
    }
}

// Every pattern of {0, 1/2, largest below 1} over the canonical numbers of two calls, delivered by the scripted
// 64-bit engine (one raw draw per number): the consumption must not depend on the values drawn.
template <typename T>
static void extremes(report& r)
{
    std::string const tn = vf::type_name<T>();
    std::uint64_t const vals[3] = {0, std::uint64_t(1) << 63, vf::raw_for<T>(std::nextafter(T(1), T(0)))};
    for (int kind = 0; kind != 3; ++kind)
    {
        sz const d = 2, calls = 2;
        sz const numbers = (kind == 2 ? d + 1 : d) * calls;
        sz patterns = 1; for (sz i = 0; i != numbers; ++i) patterns *= 3;
        for (sz pat = 0; pat != patterns; ++pat)
        {
            std::string const id = tn + " extremes kind=" + std::to_string(kind) + " pattern=" + std::to_string(pat);
            if (!r.want(id)) continue;
            r.eval();
            auto& table = vf::script_engine::table();
            table.clear();
            sz rest = pat; bool has_zero = false;
            for (sz i = 0; i != numbers; ++i) { table.push_back(vals[rest % 3]); has_zero |= rest % 3 == 0; rest /= 3; }
            vf::script_engine gen;
            vf::script_engine::draws() = 0;
            if (kind == 0) (void) hep::plain_iteration(hep::make_integrand<T>(pattern_fn<T>{1}, d), calls, gen);
            else if (kind == 1)
            {
                hep::vegas_pdf<T> pdf(d, 3);
                pdf.set_bin_left(0, 1, T(0.1L));
                (void) hep::vegas_iteration(hep::make_integrand<T>(pattern_fn<T>{1}, d), calls, pdf, gen);
            }
            else
            {
                vf::pl_map<T> map; map.split = {T(0.25), T(0.75)}; map.dims = d;
                (void) hep::multi_channel_iteration(hep::make_multi_channel_integrand<T>(pattern_mc_fn<T>{pattern_fn<T>{1}, false}, d, map, d, 2), calls,
                    std::vector<T>{T(0.5), T(0.5)}, gen);
            }
            if (vf::script_engine::draws() != numbers || gen.position() != numbers)
                r.violate("draws-depend-on-the-values-drawn", id, id + ": " + std::to_string(vf::script_engine::draws()) + " raw draws (generator at position "
                    + std::to_string(gen.position()) + ") for " + std::to_string(numbers) + " canonical numbers");
            if (has_zero) r.distinct(vf::hash_str(id));
        }
    }
    vf::script_engine::table().clear();
}

template <typename T>
static void for_type(report& r)
{
    if (!r.want_prefix(vf::type_name<T>())) return;
    if (r.want_prefix(std::string(vf::type_name<T>()) + " extremes")) extremes<T>(r);
    product<T, std::minstd_rand0>(r);
    product<T, std::minstd_rand>(r);
    product<T, std::mt19937>(r);
    product<T, std::mt19937_64>(r);
    product<T, std::ranlux24_base>(r);
    product<T, std::ranlux48_base>(r);
    product<T, std::ranlux24>(r);
    product<T, std::ranlux48>(r);
    product<T, std::knuth_b>(r);
    if (r.want_prefix(std::string(vf::type_name<T>()) + " range")) ranges<T>(r);
}

int main(int argc, char** argv)
{
    auto const a = vf::parse_args(argc, argv);
    report r(a);
#if VF_PART_ENABLED(0)
    if (a.nshards == 1 || a.shard % 3 == 0) for_type<float>(r);
#endif
#if VF_PART_ENABLED(1)
    if (a.nshards == 1 || a.shard % 3 == 1) for_type<double>(r);
#endif
#if VF_PART_ENABLED(2)
    if (a.nshards == 1 || a.shard % 3 == 2) for_type<long double>(r);
#endif
    return r.finish();
}
