// C11 — a distribution bin is the integral of the integrand restricted to that bin.
//  A. single-call iterations: every (x, y) pair from edge / neighbour / mid-point / outside / huge /
//     infinite / NaN coordinates for every binning and range, projected into a 1-d and a 2-d
//     distribution in the same call, through PLAIN, VEGAS (non-uniform grid) and MULTI-CHANNEL
//     (non-trivial weights); reference bin = floor((x-min)/size) in __float128.
//  B. multi-call iterations: every bin's (value, error) against a separate integration of
//     integrand x indicator(bin) / area with the same random numbers, and the sum over bins.
//  C. the same as B through mpi_plain / mpi_vegas / mpi_multi_channel with 2 and 3 ranks under the MPI environment model
//     (the bins travel through the reduction next to the integral's sums and the adjustment data).
#include "common.hpp"
#include "engines.hpp"
#include "mcmodel.hpp"
#include "mpienv.hpp"

#include "hep/mc.hpp"
#include "hep/mc-mpi.hpp"

#include <cmath>

using vf::report;
typedef std::size_t sz;
typedef long double L;

template <typename T>
struct scr
{
    std::vector<T> xs, ys, vals;   // per call
    std::vector<T> weights;        // logged point weights
    int mode = 0;                  // 0 project, 1 return f * indicator / area (no projection)
    // mode 1 parameters
    T lo = 0, hi = 0, area = 1;
    sz n = 0;
};
template <typename T> static scr<T>& S() { static scr<T> s; return s; }

template <typename T>
struct fn
{
    template <typename P>
    T go(P const& p, hep::projector<T>* proj) const
    {
        auto& s = S<T>();
        sz const k = s.n++;
        T const x = s.xs[k % s.xs.size()], y = s.ys[k % s.ys.size()], v = s.vals[k % s.vals.size()];
        if (s.mode == 1) return (x >= s.lo && x < s.hi) ? v / s.area : T();
        s.weights.push_back(v != T() ? p.weight() : T());
        if (proj) { proj->add(0, x, v); proj->add(1, x, y, v); proj->add(2, y, v); }
        return v;
    }
    T operator()(hep::mc_point<T> const& p) const { return go(p, nullptr); }
    T operator()(hep::mc_point<T> const& p, hep::projector<T>& proj) const { return go(p, &proj); }
    T operator()(hep::vegas_point<T> const& p) const { return go(p, nullptr); }
    T operator()(hep::vegas_point<T> const& p, hep::projector<T>& proj) const { return go(p, &proj); }
    T operator()(hep::multi_channel_point<T> const& p) const { return go(p, nullptr); }
    T operator()(hep::multi_channel_point<T> const& p, hep::projector<T>& proj) const { return go(p, &proj); }
};

// the third distribution: one-dimensional over the y range of the two-dimensional one
template <typename T>
static hep::distribution_parameters<T> third(hep::distribution_parameters<T> const& d1)
{
    return hep::distribution_parameters<T>(d1.bins_y(), d1.y_min(), d1.y_min() + T(d1.bins_y()) * d1.bin_size_y(), "three");
}

static int g_world = 0;     // > 0: part C, one iteration of n calls through the MPI integrators with that many ranks

template <typename T>
static hep::plain_result<T> mpi_iterate(int kind, sz n, hep::distribution_parameters<T> const* d0, hep::distribution_parameters<T> const* d1)
{
    using E = vf::script_engine;
    std::vector<hep::plain_result<T>> got;
    std::vector<sz> const calls = {n};
    vf::mpi_env env(g_world);
    auto const out = env.run([&](int rank) {
        S<T>().n = 0;
        S<T>().weights.clear();
        if (rank == 0) got.clear();
        if (kind == 0)
        {
            auto const c = d0 ? hep::mpi_plain(MPI_COMM_WORLD, hep::make_integrand<T>(fn<T>(), 1, *d0, *d1, third<T>(*d1)), calls, hep::make_plain_chkpt<T, E>(), vf::never_stop_mpi())
                              : hep::mpi_plain(MPI_COMM_WORLD, hep::make_integrand<T>(fn<T>(), 1), calls, hep::make_plain_chkpt<T, E>(), vf::never_stop_mpi());
            if (rank == 0) got.push_back(c.results().back());
        }
        else if (kind == 1)
        {
            hep::vegas_pdf<T> pdf(1, 3);
            pdf.set_bin_left(0, 1, T(0.125)); pdf.set_bin_left(0, 2, T(0.25));
            auto const c = d0 ? hep::mpi_vegas(MPI_COMM_WORLD, hep::make_integrand<T>(fn<T>(), 1, *d0, *d1, third<T>(*d1)), calls, hep::make_vegas_chkpt<T, E>(pdf, T(0.75), E()), vf::never_stop_mpi())
                              : hep::mpi_vegas(MPI_COMM_WORLD, hep::make_integrand<T>(fn<T>(), 1), calls, hep::make_vegas_chkpt<T, E>(pdf, T(0.75), E()), vf::never_stop_mpi());
            if (rank == 0) got.push_back(hep::plain_result<T>(c.results().back()));
        }
        else
        {
            vf::pl_map<T> map; map.split = {T(0.25), T(0.5), T(0.75)}; map.jac = 3;
            std::vector<T> const w = {T(0.5), T(0.125), T(0.375)};
            auto const c = d0 ? hep::mpi_multi_channel(MPI_COMM_WORLD, hep::make_multi_channel_integrand<T>(fn<T>(), 1, map, 1, 3, *d0, *d1, third<T>(*d1)), calls, hep::make_multi_channel_chkpt<T, E>(w, T(0.015625), T(0.375), E()), vf::never_stop_mpi())
                              : hep::mpi_multi_channel(MPI_COMM_WORLD, hep::make_multi_channel_integrand<T>(fn<T>(), 1, map, 1, 3), calls, hep::make_multi_channel_chkpt<T, E>(w, T(0.015625), T(0.375), E()), vf::never_stop_mpi());
            if (rank == 0) got.push_back(hep::plain_result<T>(c.results().back()));
        }
    });
    if (!out.ok || got.size() != 1) { std::fprintf(stderr, "HARNESS: MPI run failed in C11: %s\n", out.what.c_str()); std::exit(3); }
    return got[0];
}

template <typename T>
static hep::plain_result<T> iterate(int kind, sz n, hep::distribution_parameters<T> const* d0, hep::distribution_parameters<T> const* d1)
{
    if (g_world > 0) return mpi_iterate<T>(kind, n, d0, d1);
    vf::script_engine gen;
    S<T>().n = 0;
    S<T>().weights.clear();
    if (kind == 0)
    {
        return d0 ? hep::plain_iteration(hep::make_integrand<T>(fn<T>(), 1, *d0, *d1, third<T>(*d1)), n, gen)
                  : hep::plain_iteration(hep::make_integrand<T>(fn<T>(), 1), n, gen);
    }
    if (kind == 1)
    {
        hep::vegas_pdf<T> pdf(1, 3);
        pdf.set_bin_left(0, 1, T(0.125)); pdf.set_bin_left(0, 2, T(0.25));
        return d0 ? hep::plain_result<T>(hep::vegas_iteration(hep::make_integrand<T>(fn<T>(), 1, *d0, *d1, third<T>(*d1)), n, pdf, gen))
                  : hep::plain_result<T>(hep::vegas_iteration(hep::make_integrand<T>(fn<T>(), 1), n, pdf, gen));
    }
    vf::pl_map<T> map; map.split = {T(0.25), T(0.5), T(0.75)}; map.jac = 3;
    std::vector<T> const w = {T(0.5), T(0.125), T(0.375)};
    return d0 ? hep::plain_result<T>(hep::multi_channel_iteration(hep::make_multi_channel_integrand<T>(fn<T>(), 1, map, 1, 3, *d0, *d1, third<T>(*d1)), n, w, gen))
              : hep::plain_result<T>(hep::multi_channel_iteration(hep::make_multi_channel_integrand<T>(fn<T>(), 1, map, 1, 3), n, w, gen));
}

// acceptable bins for coordinate c: returns {-1} (none), or up to two candidates; -1 among them means "no bin" is acceptable too
template <typename T>
static std::vector<long> acceptable(T c, T mn, T size, sz bins)
{
    if (std::isnan(c) || std::isinf(c)) return {-1};
    __float128 const q = (static_cast<__float128>(c) - static_cast<__float128>(mn)) / static_cast<__float128>(size);
    __float128 const aq = q < 0 ? -q : q;
    __float128 const tol = 2 * static_cast<__float128>(std::numeric_limits<T>::epsilon()) * (aq > 1 ? aq : 1);
    auto bin_of = [&](__float128 v) -> long {
        if (v < 0) return -1;
        if (v >= static_cast<__float128>(bins)) return -1;
        return static_cast<long>(v);   // truncation == floor for v >= 0
    };
    long const a = bin_of(q - tol), b = bin_of(q + tol), m = bin_of(q);
    std::vector<long> out = {m};
    if (a != m) out.push_back(a);
    if (b != m && b != a) out.push_back(b);
    return out;
}

template <typename T>
static std::vector<T> coordinates(T mn, T size, sz bins)
{
    std::vector<T> c;
    T const inf = std::numeric_limits<T>::infinity();
    for (sz k = 0; k <= bins; ++k)
    {
        T const e = mn + T(k) * size;
        c.push_back(e);
        c.push_back(std::nextafter(e, -inf));
        c.push_back(std::nextafter(e, inf));
        if (k < bins) c.push_back(mn + (T(k) + T(0.5)) * size);
    }
    T const mx = mn + T(bins) * size;
    T const span = T(bins) * size;
    for (T v : {mn - span, mn - T(1e10L) * span - T(1e10L), mx + span, T(1e19L), T(-1e19L), T(1e30L), std::numeric_limits<T>::max(), -std::numeric_limits<T>::max(),
                inf, -inf, std::numeric_limits<T>::quiet_NaN(), T(1.9e19L) * span + mx, T(0)})
        c.push_back(v);
    return c;
}

template <typename T>
static void part_a(report& r)
{
    std::string const tn = vf::type_name<T>();
    struct range { L lo, hi; };
    std::vector<range> const ranges = {{0, 1}, {-1, 1}, {-3, -1}, {2, 5}, {0, 1e-6L}, {-1e6L, 1e6L}, {0.1L, 0.7L}};
    std::vector<T> const values = {T(1), T(-2), T(0.25)};
    L const eps = std::numeric_limits<T>::epsilon();
    for (int kind = 0; kind != 3; ++kind)
    for (sz ri = 0; ri != ranges.size(); ++ri)
    for (sz bx : {sz(1), sz(2), sz(3), sz(5)})
    for (sz by : {sz(1), sz(2), sz(3)})
    {
        std::string const base = tn + " A kind=" + std::to_string(kind) + " range=" + std::to_string(ri) + " bins=" + std::to_string(bx) + "x" + std::to_string(by);
        if (!r.want_prefix(base.substr(0, std::min(base.size(), r.a().replay_case.size())))) continue;
        auto const& rx = ranges[ri];
        auto const& ry = ranges[(ri + 3) % ranges.size()];
        hep::distribution_parameters<T> d0(bx, T(rx.lo), T(rx.hi), "one");
        hep::distribution_parameters<T> d1(bx, by, T(rx.lo), T(rx.hi), T(ry.lo), T(ry.hi), "two");
        auto const cx = coordinates<T>(d1.x_min(), d1.bin_size_x(), bx);
        auto const cy = coordinates<T>(d1.y_min(), d1.bin_size_y(), by);
        sz caseno = 0;
        for (sz ix = 0; ix != cx.size(); ++ix)
        for (sz iy = 0; iy != cy.size(); ++iy)
        {
            std::string const id = base + " ix=" + std::to_string(ix) + " iy=" + std::to_string(iy);
            ++caseno;
            if (!r.want(id)) continue;
            r.eval();
            auto& s = S<T>();
            T const v = values[caseno % values.size()];
            s.xs = {cx[ix]}; s.ys = {cy[iy]}; s.vals = {v}; s.mode = 0;
            vf::script_engine::table() = {std::uint64_t(3) << 60, std::uint64_t(5) << 61};
            auto const res = iterate<T>(kind, 1, &d0, &d1);
            T const w = s.weights.at(0);
            std::string const what = std::string(tn) + " x=" + vf::dec(cx[ix]) + " y=" + vf::dec(cy[iy]) + " value=" + vf::dec(v) + " weight=" + vf::dec(w)
                + " into 1-d [" + vf::dec(d0.x_min()) + " + k*" + vf::dec(d0.bin_size_x()) + ", " + std::to_string(bx) + " bins] and 2-d " + std::to_string(bx) + "x" + std::to_string(by)
                + " (y from " + vf::dec(d1.y_min()) + " step " + vf::dec(d1.bin_size_y()) + ") kind=" + std::to_string(kind);
            if (res.distributions().size() != 3) { r.violate("distribution-count", id, what); continue; }
            // which bins changed?
            auto changed = [&](hep::distribution_result<T> const& dr, std::vector<long>& hit) {
                for (sz b = 0; b != dr.results().size(); ++b)
                    if (dr.results()[b].sum() != T() || dr.results()[b].sum_of_squares() != T() || dr.results()[b].non_zero_calls() != 0) hit.push_back(long(b));
            };
            std::vector<long> h0, h1;
            changed(res.distributions()[0], h0);
            changed(res.distributions()[1], h1);
            auto const ax = acceptable<T>(cx[ix], d0.x_min(), d0.bin_size_x(), bx);
            auto const ay = acceptable<T>(cy[iy], d1.y_min(), d1.bin_size_y(), by);
            auto in = [](std::vector<long> const& a, long v) { return std::find(a.begin(), a.end(), v) != a.end(); };
            auto classify = [&](T c, T mn, T size, sz bins) -> std::string {
                if (std::isnan(c)) return "nan";
                if (std::isinf(c)) return "inf";
                L const q = (L(c) - L(mn)) / L(size);
                if (q >= 1.8446744073709551615e19L || q <= -9.2e18L) return "quotient-beyond-size_t";
                if (q < 0 || q >= bins) return "outside";
                return "inside";
            };
            // 1-d
            {
                bool ok = h0.size() <= 1 && in(ax, h0.empty() ? -1 : h0[0]);
                if (!ok)
                    r.violate("wrong-bin-1d/" + classify(cx[ix], d0.x_min(), d0.bin_size_x(), bx), id, what + ": 1-d bins changed: {" + vf::join(h0) + "}, acceptable: {" + vf::join(ax) + "} (-1 = none)");
                else if (!h0.empty())
                {
                    auto const& br = res.distributions()[0].results()[h0[0]];
                    L const area = d0.bin_size_x();   // y size is 1
                    L const want = L(v) * L(w) / area;
                    if (!(std::fabs(L(br.sum()) - want) <= 8 * eps * std::fabs(want)) || !(std::fabs(L(br.sum_of_squares()) - want * want) <= 16 * eps * want * want))
                        r.violate("bin-content-1d", id, what + ": bin " + std::to_string(h0[0]) + " holds sum " + vf::dec(L(br.sum())) + " sumsq " + vf::dec(L(br.sum_of_squares()))
                            + ", expected value*weight/area = " + vf::dec(want));
                }
            }
            // 2-d
            {
                bool ok = h1.size() <= 1;
                long bxg = -1, byg = -1;
                if (ok && !h1.empty()) { bxg = h1[0] % long(bx); byg = h1[0] / long(bx); ok = in(ax, bxg) && in(ay, byg); }
                else if (ok) ok = in(ax, -1) || in(ay, -1);
                if (!ok)
                {
                    std::string cls = classify(cx[ix], d1.x_min(), d1.bin_size_x(), bx);
                    std::string const cly = classify(cy[iy], d1.y_min(), d1.bin_size_y(), by);
                    if (cls == "inside" || (cly != "inside" && cly != "outside" && cls == "outside")) cls = cly;
                    r.violate("wrong-bin-2d/" + cls, id, what + ": 2-d flat bins changed: {" + vf::join(h1) + "} = (x " + std::to_string(bxg) + ", y " + std::to_string(byg)
                        + "), acceptable x: {" + vf::join(ax) + "} y: {" + vf::join(ay) + "} (-1 = none)");
                }
                else if (!h1.empty())
                {
                    auto const& br = res.distributions()[1].results()[h1[0]];
                    L const area = L(d1.bin_size_x()) * L(d1.bin_size_y());
                    L const want = L(v) * L(w) / area;
                    if (!(std::fabs(L(br.sum()) - want) <= 8 * eps * std::fabs(want)) || !(std::fabs(L(br.sum_of_squares()) - want * want) <= 16 * eps * want * want))
                        r.violate("bin-content-2d", id, what + ": flat bin " + std::to_string(h1[0]) + " holds sum " + vf::dec(L(br.sum())) + ", expected value*weight/area = " + vf::dec(want));
                    // mid points are listed in the same (x fastest) order
                    auto const mxs = hep::mid_points_x(res.distributions()[1]);
                    auto const mys = hep::mid_points_y(res.distributions()[1]);
                    L const wx = L(d1.x_min()) + (bxg + 0.5L) * L(d1.bin_size_x()), wy = L(d1.y_min()) + (byg + 0.5L) * L(d1.bin_size_y());
                    L const tx = 8 * eps * (std::fabs(L(d1.x_min())) + bx * L(d1.bin_size_x())), ty = 8 * eps * (std::fabs(L(d1.y_min())) + by * L(d1.bin_size_y()));
                    if (mxs.size() != bx * by || mys.size() != bx * by || !(std::fabs(L(mxs[h1[0]]) - wx) <= tx) || !(std::fabs(L(mys[h1[0]]) - wy) <= ty))
                        r.violate("mid-point-order", id, what + ": mid point of flat bin " + std::to_string(h1[0]) + " reported as (" + vf::dec(L(mxs.at(h1[0]))) + ", " + vf::dec(L(mys.at(h1[0])))
                            + "), the bin that was filled is centred at (" + vf::dec(wx) + ", " + vf::dec(wy) + ")");
                }
            }
            {
                // third distribution: filled with y only
                std::vector<long> h2;
                changed(res.distributions()[2], h2);
                auto const p2 = res.distributions()[2].parameters();
                auto const a2 = acceptable<T>(cy[iy], p2.x_min(), p2.bin_size_x(), p2.bins_x());
                if (!(h2.size() <= 1 && in(a2, h2.empty() ? -1 : h2[0])))
                    r.violate("wrong-bin-1d/" + classify(cy[iy], p2.x_min(), p2.bin_size_x(), p2.bins_x()), id, what + ": third distribution (y only) bins changed: {" + vf::join(h2) + "}, acceptable: {" + vf::join(a2) + "} (-1 = none)");
            }
            for (auto const& dr : res.distributions())
                for (auto const& b : dr.results())
                    if (b.calls() != 1) { r.violate("bin-calls", id, what + ": a bin reports calls=" + std::to_string(b.calls()) + " for an iteration of 1 call"); break; }
            r.outcome("filled 2-d flat bin", h1.empty() ? 99 : sz(h1[0]));
            if (ax.size() > 1 || ay.size() > 1) r.count("boundary_cases_accepting_two_bins");
            r.distinct(vf::hash_str(id));
            if (r.wants_sample() && ix == 1 && iy == 4) r.sample(what);
        }
    }
}

template <typename T>
static void part_b(report& r, int world = 0)
{
    std::string const tn = vf::type_name<T>();
    L const eps = std::numeric_limits<T>::epsilon();
    struct reset { ~reset() { g_world = 0; } } reset_world;
    g_world = world;
    for (int kind = 0; kind != 3; ++kind)
    for (sz bins : {sz(1), sz(2), sz(4)})
    for (int pat = 0; pat != 18; ++pat)     // 12..17: a steeply falling spectrum of values that are no dyadic numbers
    {
        if (world > 0 && (bins == 1 || (pat % 6) >= 2)) continue;      // part C: 2 and 4 bins, six of the patterns
        std::string const id = tn + (world > 0 ? " C world=" + std::to_string(world) : std::string(" B")) + " kind=" + std::to_string(kind) + " bins=" + std::to_string(bins) + " pattern=" + std::to_string(pat);
        if (!r.want(id)) continue;
        r.eval();
        sz const n = 9;
        T const lo = T(-1), hi = T(3);
        hep::distribution_parameters<T> d0(bins, lo, hi, "one");
        hep::distribution_parameters<T> d1(bins, 2, lo, hi, T(0), T(1), "two");
        auto& s = S<T>();
        s.xs.clear(); s.ys.clear(); s.vals.clear();
        for (sz k = 0; k != n; ++k)
        {
            std::uint64_t const h = vf::splitmix64(pat * 100 + k);
            // coordinates away from the edges (edges are part A): (j + 1/4 or 3/4) / 4 steps over [-2, 4]
            s.xs.push_back(T(-2) + T(6) * (T(h % 16) + T(0.3L)) / T(16));
            s.ys.push_back(T(0.25) + T(0.5) * T((h >> 8) & 1));
            s.vals.push_back(T(int((h >> 16) % 7) - 3) * T(0.5));
            if (pat >= 12)
            {
                // bins hold values of very different magnitude (1, 2^-30, 2^-60, 2^-90 from left to right) whose sums
                // round: a bin must not receive anything from the sums of its neighbours or of the integral
                T const x = s.xs.back();
                int const cell = x < lo ? 0 : x >= hi ? 3 : int((x - lo) / ((hi - lo) / T(4)));
                s.vals.back() = std::ldexp((s.vals.back() == T() ? T(1) : s.vals.back()) / T(3), -30 * cell);
            }
        }
        vf::script_engine::table().clear();
        vf::script_engine::salt() = 1100 + pat;
        s.mode = 0;
        auto const res = iterate<T>(kind, n, &d0, &d1);
        L total_inside = 0;
        bool ok = true;
        for (sz b = 0; b != bins && ok; ++b)
        {
            s.mode = 1;
            s.lo = lo + T(b) * d0.bin_size_x(); s.hi = lo + T(b + 1) * d0.bin_size_x(); s.area = d0.bin_size_x();
            auto const sep = iterate<T>(kind, n, nullptr, nullptr);
            auto const& br = res.distributions()[0].results()[b];
            L mag = 0;      // of the values projected into this bin
            for (sz k = 0; k != n; ++k) if (s.xs[k] >= s.lo && s.xs[k] < s.hi) mag += std::fabs(L(s.vals[k]));
            L const scale = 8 * mag / L(s.area) / n;    // generous: weights are O(1)
            if (br.calls() != n) { r.violate("bin-calls", id, id + ": bin reports calls " + std::to_string(br.calls())); ok = false; }
            else if (!(std::fabs(L(br.value()) - L(sep.value())) <= 8 * eps * scale))
            { r.violate("bin-differs-from-restricted-integral", id, id + ": bin " + std::to_string(b) + " value " + vf::dec(L(br.value())) + ", integrating f*indicator/area gives " + vf::dec(L(sep.value()))); ok = false; }
            else if (!(std::fabs(L(br.variance()) - L(sep.variance())) <= 64 * eps * scale * scale))
            { r.violate("bin-differs-from-restricted-integral", id, id + ": bin " + std::to_string(b) + " variance " + vf::dec(L(br.variance())) + ", integrating f*indicator/area gives " + vf::dec(L(sep.variance()))); ok = false; }
            total_inside += L(br.value()) * L(s.area);
        }
        if (ok)
        {
            s.mode = 1; s.lo = lo; s.hi = hi; s.area = T(1);
            auto const inside = iterate<T>(kind, n, nullptr, nullptr);
            L mag = 0;
            for (sz k = 0; k != n; ++k) mag += std::fabs(L(s.vals[k]));
            if (!(std::fabs(total_inside - L(inside.value())) <= 64 * eps * mag))
                r.violate("bins-do-not-add-up", id, id + ": sum of bin values x areas " + vf::dec(total_inside) + ", integral of everything projected inside " + vf::dec(L(inside.value())));
            // the 2-d distribution over the same x: summing over y rows x areas gives the same
            L t2 = 0;
            for (auto const& b2 : res.distributions()[1].results()) t2 += L(b2.value()) * L(d1.bin_size_x()) * L(d1.bin_size_y());
            if (!(std::fabs(t2 - L(inside.value())) <= 64 * eps * mag))
                r.violate("bins-do-not-add-up", id, id + ": 2-d bins x areas sum to " + vf::dec(t2) + ", integral of everything projected inside " + vf::dec(L(inside.value())));
        }
        r.distinct(vf::hash_str(id));
    }
    vf::script_engine::salt() = 0;
}

template <typename T>
static void for_type(report& r)
{
    std::string const tn = vf::type_name<T>();
    if (!r.want_prefix(tn)) return;
    if (r.want_prefix(tn + " A")) part_a<T>(r);
    if (r.want_prefix(tn + " B")) part_b<T>(r);
    if (r.want_prefix(tn + " C")) { part_b<T>(r, 2); part_b<T>(r, 3); }
}

int main(int argc, char** argv)
{
    auto const a = vf::parse_args(argc, argv);
    report r(a);
#if VF_PART_ENABLED(0)
    if (a.nshards == 1 || a.shard % 3 == 0) for_type<float>(r);
#endif
#if VF_PART_ENABLED(1)
    if (a.nshards == 1 || a.shard % 3 == 1) for_type<double>(r);
#endif
#if VF_PART_ENABLED(2)
    if (a.nshards == 1 || a.shard % 3 == 2) for_type<long double>(r);
#endif
    return r.finish();
}
