// C12 — iterations run in order and stop only when the callback says so.
//  A. user callbacks answering false at every possible position (and never), from an empty and from
//     a resumed checkpoint, serial and under the MPI shim: invocation log and returned checkpoint.
//  B. the built-in callback: four modes x targets x integrand alphabet x 5 iterations against a
//     long double reference of the documented stop rule.
//  C. targets that are reached with equality in exact arithmetic, with and without a file name.
#include "common.hpp"
#include "engines.hpp"
#include "mcmodel.hpp"
#include "mpienv.hpp"

#include "hep/mc.hpp"

#include <fcntl.h>
#include <unistd.h>
#include "hep/mc-mpi.hpp"

#include <cmath>
#include <sys/stat.h>
#include <unistd.h>

using vf::report;
typedef std::size_t sz;
typedef long double L;

static std::string g_file;
static std::string g_scratch;      // a directory of this process (runs without a file name happen inside it)

template <typename C>
static std::string text_of(C const& c) { std::ostringstream o; c.serialize(o); return o.str(); }

// ---- integrands -------------------------------------------------------------------------------------

static int g_kind = 5;        // 0 identically zero, 1 constant, 2 +-1 alternating, 3 NaN everywhere, 4 NaN sometimes, 5 linear, 6 narrow support, 7 linear at a tiny scale
static sz g_counter = 0;

// values depend on the point only, so that serial and MPI runs integrate the same function
template <typename T>
static T value_of(T x)
{
    ++g_counter;
    sz const cell = static_cast<sz>(x * T(64));
    switch (g_kind)
    {
    case 0: return T();
    case 1: return T(1);
    case 2: return (cell % 2) ? T(-1) : T(1);
    case 3: return std::numeric_limits<T>::quiet_NaN();
    case 4: return (cell % 3 == 1) ? std::numeric_limits<T>::quiet_NaN() : T(0.5) + x;
    case 6: return (cell % 8 == 3) ? T(1) + x : T();      // one cell in eight: some iterations have no hit at all
    case 7: return (T(0.25) + x) * std::sqrt(std::sqrt(std::numeric_limits<T>::min())) * T(1e3L);   // squares of the errors near min()
    default: return T(0.25) + x;
    }
}

template <typename T> struct pf { T operator()(hep::mc_point<T> const& p) const { return value_of<T>(p.point()[0]); } };
template <typename T> struct mf { T operator()(hep::multi_channel_point<T> const& p) const { return value_of<T>(p.coordinates()[0]); } };

// ---- user callbacks ----------------------------------------------------------------------------------

struct cb_log
{
    std::vector<sz> sizes;
    std::vector<std::string> texts;
    sz stop_at = 0;          // answer false at this invocation (1-based); 0 = never
};
static cb_log g_cb;

struct user_cb
{
    template <typename C>
    bool operator()(C const& c) const
    {
        g_cb.sizes.push_back(c.results().size());
        g_cb.texts.push_back(text_of(c));
        return g_cb.sizes.size() != g_cb.stop_at;
    }
    template <typename C>
    bool operator()(MPI_Comm, C const& c) const { return (*this)(c); }
};

template <typename T, int K> struct runner;   // K: 0 plain, 1 vegas, 2 multi-channel

template <typename T> struct runner<T, 0>
{
    using E = vf::script_engine;
    using C = hep::plain_chkpt_with_rng<E, T>;
    static C fresh() { return hep::make_plain_chkpt<T, E>(E()); }
    template <typename CB> static C run(std::vector<sz> const& calls, C const& c, CB cb) { return hep::plain(hep::make_integrand<T>(pf<T>(), 1), calls, c, cb); }
    template <typename CB> static C mpi(std::vector<sz> const& calls, C const& c, CB cb) { return hep::mpi_plain(MPI_COMM_WORLD, hep::make_integrand<T>(pf<T>(), 1), calls, c, cb); }
};
template <typename T> struct runner<T, 1>
{
    using E = vf::script_engine;
    using C = hep::vegas_chkpt_with_rng<E, T>;
    static C fresh() { return hep::make_vegas_chkpt<T, E>(3, T(1.25), E()); }
    template <typename CB> static C run(std::vector<sz> const& calls, C const& c, CB cb) { return hep::vegas(hep::make_integrand<T>(pf<T>(), 1), calls, c, cb); }
    template <typename CB> static C mpi(std::vector<sz> const& calls, C const& c, CB cb) { return hep::mpi_vegas(MPI_COMM_WORLD, hep::make_integrand<T>(pf<T>(), 1), calls, c, cb); }
};
template <typename T> struct runner<T, 2>
{
    using E = vf::script_engine;
    using C = hep::multi_channel_chkpt_with_rng<E, T>;
    static C fresh() { return hep::make_multi_channel_chkpt<T, E>(T(0.01L), T(0.625), E()); }
    static vf::pl_map<T> map() { vf::pl_map<T> m; m.split = {T(0.25), T(0.75)}; return m; }
    template <typename CB> static C run(std::vector<sz> const& calls, C const& c, CB cb) { return hep::multi_channel(hep::make_multi_channel_integrand<T>(mf<T>(), 1, map(), 1, 2), calls, c, cb); }
    template <typename CB> static C mpi(std::vector<sz> const& calls, C const& c, CB cb) { return hep::mpi_multi_channel(MPI_COMM_WORLD, hep::make_multi_channel_integrand<T>(mf<T>(), 1, map(), 1, 2), calls, c, cb); }
};

static unsigned pow3(sz n) { unsigned p = 1; while (n--) p *= 3; return p; }

template <typename T, int K>
static void part_a(report& r)
{
    using R = runner<T, K>;
    std::string const tn = vf::type_name<T>();
    for (sz len = 0; len <= (r.a().thorough() ? 5u : 4u); ++len)
    for (unsigned pattern = 0; pattern != pow3(len); ++pattern)
    for (int start = 0; start != 2; ++start)
    for (sz stop_at = 0; stop_at <= len; ++stop_at)
    for (int world = 0; world <= 3; ++world)     // 0 = serial
    {
        if (world != 0 && (pattern % 3 != 0)) continue;      // MPI: a third of the calls patterns
        std::vector<sz> calls;
        { unsigned rest = pattern; for (sz i = 0; i != len; ++i) { unsigned const dgt = rest % 3; rest /= 3; calls.push_back(dgt == 0 ? 2 : dgt == 1 ? 5 : 0); } }   // calls from {2, 5, 0}
        std::string const id = tn + " A kind=" + std::to_string(K) + " calls=" + vf::join(calls) + " start=" + std::to_string(start) + " stop_at=" + std::to_string(stop_at)
            + " world=" + std::to_string(world);
        if (!r.want(id)) continue;
        r.eval();
        g_kind = 5;
        vf::script_engine::table().clear();
        vf::script_engine::salt() = 1200;
        auto base_chk = R::fresh();
        if (start == 1) base_chk = R::run({3, 4}, base_chk, vf::never_stop());
        sz const base = base_chk.results().size();
        sz const expect_inv = stop_at == 0 ? len : stop_at;
        auto judge = [&](typename R::C const& ret, std::string const& who) {
            if (g_cb.sizes.size() != expect_inv)
            { r.violate("callback-invocation-count", id, id + who + ": callback invoked " + std::to_string(g_cb.sizes.size()) + " times, expected " + std::to_string(expect_inv)); return; }
            for (sz i = 0; i != g_cb.sizes.size(); ++i)
                if (g_cb.sizes[i] != base + i + 1)
                { r.violate("callback-sees-wrong-number-of-results", id, id + who + ": invocation " + std::to_string(i + 1) + " saw " + std::to_string(g_cb.sizes[i]) + " results, expected " + std::to_string(base + i + 1)); return; }
            if (ret.results().size() != base + expect_inv)
            { r.violate("returned-checkpoint-size", id, id + who + ": returned checkpoint has " + std::to_string(ret.results().size()) + " results, expected " + std::to_string(base + expect_inv)); return; }
            if (expect_inv > 0 && text_of(ret) != g_cb.texts.back())
            { r.violate("returned-checkpoint-differs-from-last-seen", id, id + who + ": the returned checkpoint is not the one the callback saw last"); return; }
            if (expect_inv == 0 && text_of(ret) != text_of(R::run({}, base_chk, vf::never_stop())))
            { r.violate("returned-checkpoint-differs-from-last-seen", id, id + who + ": a run without iterations changed the checkpoint"); return; }
        };
        if (world == 0)
        {
            g_cb = cb_log(); g_cb.stop_at = stop_at; g_counter = 0;
            auto const ret = R::run(calls, base_chk, user_cb());
            judge(ret, "");
            // iterations in order: the result list is the prefix of the run that is never stopped
            g_counter = 0;
            auto const all = R::run(calls, base_chk, vf::never_stop());
            std::vector<sz> prefix(calls.begin(), calls.begin() + expect_inv);
            g_counter = 0;
            auto const pre = R::run(prefix, base_chk, vf::never_stop());
            if (text_of(pre) != text_of(ret)) r.violate("iterations-out-of-order", id, id + ": the stopped run differs from a run of the first " + std::to_string(expect_inv) + " iterations");
            (void) all;
        }
        else
        {
            vf::mpi_env env(world);
            std::vector<std::string> texts(world);
            bool failed = false;
            auto out = env.run([&](int rank) {
                g_cb = cb_log(); g_cb.stop_at = stop_at; g_counter = 0;
                auto const ret = R::mpi(calls, base_chk, user_cb());
                auto const before = r.violation_count();
                judge(ret, " rank " + std::to_string(rank));
                failed |= r.violation_count() != before;
                texts[rank] = text_of(ret);
            });
            if (!out.ok) r.violate("mpi-run-failed", id, id + ": " + out.what);
            else if (!failed) for (int k = 1; k < world; ++k) if (texts[k] != texts[0]) { r.violate("ranks-disagree", id, id + ": rank " + std::to_string(k) + " returns a different checkpoint"); break; }
        }
        if (len >= 2) r.distinct(vf::hash_str(id));
        r.transition(expect_inv);
        r.state();
    }
}

// ---- built-in callback ---------------------------------------------------------------------------------

// reference stop index (number of iterations performed) per the documented rule; lo..hi = acceptable range
template <typename T, typename Res>
static void reference_stop(std::vector<Res> const& res, T target, sz& lo, sz& hi)
{
    sz const n = res.size();
    lo = hi = n;
    if (!(target > T())) return;
    for (sz k = 1; k <= n; ++k)
    {
        L sw = 0, swe = 0;
        bool defined = true, any = false;
        for (sz i = 0; i != k; ++i)
        {
            if (res[i].non_zero_calls() == 0) continue;
            any = true;
            L const v = res[i].variance(), e = res[i].value();
            if (!(v > 0) || !std::isfinite(v) || !std::isfinite(e)) { defined = false; break; }
            sw += 1 / v; swe += e / v;
        }
        if (!defined || !any || swe == 0)
        {
            // combination undefined (0/0, zero variance, ...): the property leaves the decision open
            lo = std::min(lo, k);
            continue;
        }
        L const ratio = std::sqrt(1 / sw) / std::fabs(swe / sw);
        L const t = target;
        if (std::fabs(ratio - t) <= 1e-5L * t) { lo = std::min(lo, k); continue; }   // within rounding of the target: both accepted
        if (ratio <= t) { lo = std::min(lo, k); hi = k; return; }
    }
}

template <typename T, int K>
static void part_b(report& r)
{
    using R = runner<T, K>;
    using C = typename R::C;
    std::string const tn = vf::type_name<T>();
    hep::callback_mode const modes[] = {hep::callback_mode::silent, hep::callback_mode::silent_and_write_chkpt, hep::callback_mode::verbose, hep::callback_mode::verbose_and_write_chkpt};
    // the second list has iterations that are asked for zero calls
    for (int list = 0; list != 2; ++list)
    for (int kind = 0; kind != 8; ++kind)
    {
        std::vector<sz> const calls = list == 0 ? std::vector<sz>{4, 6, 5, 8, 7} : std::vector<sz>{5, 0, 6, 0, 7};
        if (list == 1 && kind != 2 && kind != 4 && kind != 5) continue;
        // reference results: iterations do not depend on the callback
        g_kind = kind; g_counter = 0;
        vf::script_engine::table().clear();
        vf::script_engine::salt() = 1201;
        auto const all = R::run(calls, R::fresh(), vf::never_stop());
        if (all.results().size() != calls.size()) { r.violate("never-stopping-callback-stopped", tn, tn + " kind " + std::to_string(kind)); continue; }
        for (auto const& res : all.results()) if (res.non_zero_calls() == 0) r.count("reference_iterations_without_any_hit");
        // targets: fixed ones plus the relative errors actually reached (and values just around them)
        std::vector<T> targets = {T(0), T(1e-3L), T(0.05L), T(0.3L), T(1)};
        for (sz k = 1; k <= calls.size(); ++k)
        {
            auto const acc = hep::accumulate<hep::weighted_with_variance>(all.results().begin(), all.results().begin() + k);
            T const rel = acc.error() / std::fabs(acc.value());
            if (std::isfinite(rel) && rel > T()) { targets.push_back(rel * T(1.01L)); targets.push_back(rel * T(0.99L)); }
        }
        for (sz ti = 0; ti != targets.size(); ++ti)
        for (int mi = 0; mi != 4; ++mi)
        for (int world = 0; world <= 2; world += 2)
        {
            if (world != 0 && mi % 2 == 1 && false) continue;
            std::string const id = tn + " B kind=" + std::to_string(K) + (list ? " zero-call-iterations" : "") + " integrand=" + std::to_string(kind) + " target#" + std::to_string(ti) + "=" + vf::dec(targets[ti])
                + " mode=" + std::to_string(mi) + " world=" + std::to_string(world);
            if (!r.want(id)) continue;
            r.eval();
            sz lo, hi;
            reference_stop<T>(all.results(), targets[ti], lo, hi);
            std::ostringstream sink;
            std::streambuf* const old = std::cout.rdbuf(sink.rdbuf());
            sz performed = 0;
            std::string text;
            bool mpi_ok = true; std::string mpi_what;
            if (world == 0)
            {
                g_counter = 0;
                auto const ret = R::run(calls, R::fresh(), hep::callback<C>(modes[mi], g_file, targets[ti]));
                performed = ret.results().size(); text = text_of(ret);
            }
            else
            {
                vf::mpi_env env(world);
                std::vector<sz> perf(world);
                auto out = env.run([&](int rank) {
                    g_counter = 0;
                    auto const ret = R::mpi(calls, R::fresh(), hep::mpi_callback<C>(modes[mi], g_file, targets[ti]));
                    perf[rank] = ret.results().size();
                });
                mpi_ok = out.ok; mpi_what = out.what;
                performed = perf[0];
                for (int k = 1; mpi_ok && k < world; ++k) if (perf[k] != perf[0]) { mpi_ok = false; mpi_what = "ranks performed different numbers of iterations"; }
            }
            std::cout.rdbuf(old);
            if (!mpi_ok) { r.violate("mpi-run-failed", id, id + ": " + mpi_what); continue; }
            if (performed < lo || performed > hi)
            {
                std::string key = targets[ti] == T() ? "stopped-early-without-target" : (performed < lo ? "stopped-before-target-reached" : "continued-after-target-reached");
                r.violate(key, id, id + ": performed " + std::to_string(performed) + " of " + std::to_string(calls.size()) + " iterations, the documented rule gives "
                    + (lo == hi ? std::to_string(lo) : std::to_string(lo) + ".." + std::to_string(hi)));
            }
            else if (world == 0)
            {
                std::vector<sz> prefix(calls.begin(), calls.begin() + performed);
                g_counter = 0;
                auto const pre = R::run(prefix, R::fresh(), vf::never_stop());
                if (text_of(pre) != text) r.violate("iterations-out-of-order", id, id + ": results differ from the first " + std::to_string(performed) + " iterations of the unstopped run");
            }
            r.outcome("iterations performed", performed);
            if (lo != hi) r.count("cases_with_open_decision");
            r.distinct(vf::hash_str(id));
            r.state();
            r.transition(performed);
            if (r.wants_sample() && kind == 4 && ti > 5) r.sample(id + " -> " + std::to_string(performed) + " iterations");
        }
    }
}

// ---- C. exact boundary ----------------------------------------------------------------------------------
// Every iteration has 2 calls with the values 1 and 3: E = 2 and S^2 = 1 exactly, so the combination of k
// iterations has the relative error sqrt(1/k)/2, which is exact in every type for k = 1, 4, 16 (all operands
// are small dyadic numbers).  "Not larger than the target" then holds with equality: targets 1/2, 1/4 and 1/8
// must end the run after exactly 1, 4 and 16 iterations - in every mode, with a file name and with the default
// (empty) one.
static sz g_alt = 0;
template <typename T> struct alt_fn { T operator()(hep::mc_point<T> const&) const { return (g_alt++ % 2) ? T(3) : T(1); } };

template <typename T>
static void part_c(report& r)
{
    using C = hep::plain_chkpt_with_rng<vf::script_engine, T>;
    std::string const tn = vf::type_name<T>();
    std::vector<sz> const calls(20, 2);
    hep::callback_mode const modes[] = {hep::callback_mode::silent, hep::callback_mode::silent_and_write_chkpt, hep::callback_mode::verbose, hep::callback_mode::verbose_and_write_chkpt};
    struct tc { T target; sz expect; };
    std::vector<tc> const tcs = {{T(0.5), 1}, {T(0.25), 4}, {T(0.125), 16}, {T(0.3L), 3}, {T(0.4L), 2}, {T(0.0625), 20}, {T(0), 20}};
    for (auto const& t : tcs) for (int mi = 0; mi != 4; ++mi) for (int named = 0; named != 2; ++named)
    {
        std::string const id = tn + " C target=" + vf::dec(t.target) + " mode=" + std::to_string(mi) + (named ? " file" : " no-file-name");
        if (!r.want(id)) continue;
        r.eval();
        g_alt = 0;
        std::ostringstream sink;
        std::streambuf* const old = std::cout.rdbuf(sink.rdbuf());
        // without a file name a writing mode works on names made of a suffix only, relative to the current directory: run there
        int const here = ::open(".", O_RDONLY);
        if (!named && (here < 0 || ::chdir(g_scratch.c_str()) != 0)) { std::perror("scratch directory"); std::exit(2); }
        auto const ret = hep::plain(hep::make_integrand<T>(alt_fn<T>(), 1), calls, hep::make_plain_chkpt<T, vf::script_engine>(vf::script_engine()),
            hep::callback<C>(modes[mi], named ? g_file : std::string(), t.target));
        if (!named && ::fchdir(here) != 0) { std::perror("fchdir"); std::exit(2); }
        if (here >= 0) ::close(here);
        std::cout.rdbuf(old);
        sz const performed = ret.results().size();
        if (performed != t.expect)
            r.violate(performed < t.expect ? "stopped-before-target-reached" : "continued-after-target-reached", id, id + ": performed " + std::to_string(performed)
                + " iterations; every iteration has E = 2, S^2 = 1 exactly, the combined relative error is exactly sqrt(1/k)/2 and the rule gives " + std::to_string(t.expect));
        r.outcome("iterations performed", performed);
        r.distinct(vf::hash_str(id));
        r.state();
        r.transition(performed);
    }
}

template <typename T>
static void for_type(report& r)
{
    std::string const tn = vf::type_name<T>();
    if (!r.want_prefix(tn)) return;
    if (r.want_prefix(tn + " A")) { part_a<T, 0>(r); part_a<T, 1>(r); part_a<T, 2>(r); }
    if (r.want_prefix(tn + " B")) { part_b<T, 0>(r); part_b<T, 1>(r); part_b<T, 2>(r); }
    if (r.want_prefix(tn + " C")) part_c<T>(r);
    vf::script_engine::salt() = 0;
}

int main(int argc, char** argv)
{
    auto const a = vf::parse_args(argc, argv);
    report r(a);
    ::mkdir("build", 0777); ::mkdir("build/out", 0777); ::mkdir("build/out/tmp", 0777);
    g_file = "build/out/tmp/c12_" + std::to_string(::getpid()) + ".chkpt";
    g_scratch = "build/out/tmp/c12_" + std::to_string(::getpid()) + ".dir";
    ::mkdir(g_scratch.c_str(), 0777);
#if VF_PART_ENABLED(0)
    if (a.nshards == 1 || a.shard % 3 == 0) for_type<float>(r);
#endif
#if VF_PART_ENABLED(1)
    if (a.nshards == 1 || a.shard % 3 == 1) for_type<double>(r);
#endif
#if VF_PART_ENABLED(2)
    if (a.nshards == 1 || a.shard % 3 == 2) for_type<long double>(r);
#endif
    ::unlink(g_file.c_str());
    vf::remove_tree(g_scratch);
    return r.finish();
}
