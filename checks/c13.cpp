// C13 — combining results obeys the documented formulas and their algebraic laws.
// All sequences of 0..3 (thorough: 4 over a reduced alphabet) results over a (calls, E, S) alphabet
// plus the empty result, through hep::accumulate<weighted_with_variance / weighted_equally> and
// hep::chi_square_dof, against long double reference formulas on the recovered (E_i, S_i^2), with
// tolerances scaled by the conditioning of the (value, error) <-> (sum, sumsq) conversion; the
// laws (counters, bounds, permutation invariance, bin-wise combination) on every sequence.
#include "common.hpp"

#include "hep/mc.hpp"

#include <algorithm>
#include <cmath>

using vf::report;
typedef std::size_t sz;
typedef long double L;

template <typename T>
struct item
{
    hep::mc_result<T> res;
    bool empty;
    bool usable;      // recovered variance positive and well conditioned
    std::string name;
};

template <typename T>
static std::vector<item<T>> alphabet(int which)   // 0 full, 1 reduced, 2 medium
{
    std::vector<item<T>> out;
    bool const flt = std::is_same<T, float>::value;
    std::vector<sz> calls = which ? std::vector<sz>{2, 1000} : std::vector<sz>{2, 10, 1000};
    std::vector<L> es = which == 1 ? std::vector<L>{-3, 0, 1, 1e3L} : which == 2 ? std::vector<L>{-3, -1e-3L, 0, 1, flt ? 1e3L : 1e6L}
        : std::vector<L>{-3, -1e-3L, 0, 0.5L, 1, flt ? 1e3L : 1e6L};
    std::vector<L> ss = which == 1 ? std::vector<L>{1e-3L, 1, 1e3L} : which == 2 ? std::vector<L>{flt ? 1e-3L : 1e-6L, 1e-3L, 1, 1e3L}
        : std::vector<L>{flt ? 1e-3L : 1e-6L, 1e-3L, 0.1L, 1, 10, 1e3L};
    std::sort(ss.begin(), ss.end());
    ss.erase(std::unique(ss.begin(), ss.end()), ss.end());
    for (sz n : calls) for (L e : es) for (L s : ss)
    {
        auto const res = hep::create_result<T>(n, n, n, T(e), T(s));
        L const var = res.variance();
        L const kappa = 1 + L(res.value()) * L(res.value()) / ((n - 1) * L(s) * L(s));
        bool const usable = var > 0 && kappa * std::numeric_limits<T>::epsilon() < 1e-2L;
        out.push_back({res, false, usable, "(N=" + std::to_string(n) + ",E=" + vf::dec(T(e)) + ",S=" + vf::dec(T(s)) + ")"});
    }
    // results whose counters say that exactly one call was non-zero (a single hit): positive variance, must contribute
    for (L e : {-3.0L, 1.0L}) for (L s : {1e-3L, 1.0L})
    {
        auto const res = hep::create_result<T>(10, 1, 1, T(e), T(s));
        L const kappa = 1 + L(res.value()) * L(res.value()) / (9 * L(s) * L(s));
        bool const usable = res.variance() > T() && kappa * std::numeric_limits<T>::epsilon() < 1e-2L;
        out.push_back({res, false, usable, "(N=10,hits=1,E=" + vf::dec(T(e)) + ",S=" + vf::dec(T(s)) + ")"});
    }
    // call counters beyond 2^32 in the sum (two of these): the counters are std::size_t
    for (L e : {1.0L, -3.0L})
    {
        sz const big = 3000000000u;
        auto const res = hep::create_result<T>(big, big, big, T(e), T(1e-3L));
        bool const usable = res.variance() > T() && (1 + e * e / ((big - 1) * 1e-6L)) * std::numeric_limits<T>::epsilon() < 1e-2L;
        out.push_back({res, false, usable, "(N=3e9,E=" + vf::dec(T(e)) + ",S=0.001)"});
    }
    // results with non-finite evaluations: fewer finite than non-zero calls
    {
        auto const res = hep::create_result<T>(10, 10, 7, T(0.5), T(0.1L));
        out.push_back({res, false, res.variance() > T(), "(N=10,nonzero=10,finite=7,E=0.5,S=0.1)"});
    }
    out.push_back({hep::mc_result<T>(10, 0, 0, T(), T()), true, true, "(empty,N=10)"});
    // an iteration that was asked for zero calls: its estimate is 0/0 and must be ignored like any other empty result
    out.push_back({hep::mc_result<T>(0, 0, 0, T(), T()), true, true, "(empty,N=0)"});
    return out;
}

template <typename T>
static bool close(L got, L want, L tol) { return std::fabs(got - want) <= tol; }

template <typename T>
static void check_sequence(report& r, std::vector<item<T>> const& alpha, std::vector<sz> const& idx, std::string const& id)
{
    L const eps = std::numeric_limits<T>::epsilon();
    std::vector<hep::mc_result<T>> seq;
    bool usable = true, any_empty = false;
    for (sz i : idx) { seq.push_back(alpha[i].res); usable &= alpha[i].usable; any_empty |= alpha[i].empty; }
    if (!usable) { r.count("sequences_skipped_ill_conditioned_input"); return; }
    r.eval();
    auto describe = [&]() {
        std::string s = std::string(vf::type_name<T>()) + " [";
        for (sz i : idx) s += alpha[i].name;
        return s + "]";
    };

    // ---- variance weighted ----
    auto const ww = hep::accumulate<hep::weighted_with_variance>(seq.begin(), seq.end());
    sz calls = 0, nz = 0, fin = 0;
    L sw = 0, swe = 0, emin = 1e4000L, emax = -1e4000L, smin2 = 1e4000L, eabs = 0;
    sz contributing = 0;
    for (auto const& x : seq)
    {
        calls += x.calls(); nz += x.non_zero_calls(); fin += x.finite_calls();
        if (x.non_zero_calls() == 0) continue;
        ++contributing;
        L const e = x.value(), v = x.variance();
        sw += 1 / v; swe += e / v;
        emin = std::min(emin, e); emax = std::max(emax, e); smin2 = std::min(smin2, v); eabs = std::max(eabs, std::fabs(e));
    }
    if (ww.calls() != calls || ww.non_zero_calls() != nz || ww.finite_calls() != fin)
        r.violate("counters-do-not-add", id, describe() + ": combined counters " + std::to_string(ww.calls()) + "/"
            + std::to_string(ww.non_zero_calls()) + "/" + std::to_string(ww.finite_calls()));
    if (contributing != 0)
    {
        L const eref = swe / sw, vref = 1 / sw;
        L const n = calls;
        L const etol = 32 * eps * std::max(eabs, std::sqrt(vref));
        L const vtol = 32 * eps * (vref + eref * eref / (n - 1));
        L const e = ww.value(), v = ww.variance();
        if (vtol > 1e-2L * vref) r.count("sequences_with_ill_conditioned_output");
        if (!close<T>(e, eref, etol))
            r.violate("weighted-estimate", id, describe() + ": estimate " + vf::dec(e) + " expected " + vf::dec(eref) + " tol " + vf::dec(etol));
        else if (e < emin - etol || e > emax + etol)
            r.violate("estimate-outside-min-max", id, describe() + ": estimate " + vf::dec(e) + " not in [" + vf::dec(emin) + "," + vf::dec(emax) + "]");
        if (!close<T>(v, vref, vtol))
            r.violate("weighted-error", id, describe() + ": variance " + vf::dec(v) + " expected " + vf::dec(vref) + " tol " + vf::dec(vtol));
        else if (v > smin2 + vtol)
            r.violate("error-larger-than-smallest-input", id, describe() + ": variance " + vf::dec(v) + " > smallest input " + vf::dec(smin2));
        // permutation invariance against the sorted order
        std::vector<sz> sorted = idx;
        std::sort(sorted.begin(), sorted.end());
        if (sorted != idx)
        {
            std::vector<hep::mc_result<T>> s2;
            for (sz i : sorted) s2.push_back(alpha[i].res);
            auto const w2 = hep::accumulate<hep::weighted_with_variance>(s2.begin(), s2.end());
            if (!close<T>(w2.value(), e, 2 * etol) || !close<T>(w2.variance(), v, 2 * vtol) || w2.calls() != ww.calls())
                r.violate("order-dependence", id, describe() + ": " + vf::dec(e) + "+-" + vf::dec(std::sqrt(v)) + " vs sorted order "
                    + vf::dec(L(w2.value())) + "+-" + vf::dec(L(w2.error())));
        }
    }
    else
    {
        if (ww.value() != T() && calls != 0) r.violate("weighted-estimate", id, describe() + ": no contributing result but estimate " + vf::dec(L(ww.value())));
    }

    // ---- equally weighted ----
    auto const we = hep::accumulate<hep::weighted_equally>(seq.begin(), seq.end());
    sz const m = seq.size();
    if (m == 0)
    {
        if (we.calls() != 0 || we.sum() != T()) r.violate("equal-weighting", id, "empty range does not give the zero result");
    }
    else if (m == 1)
    {
        if (!vf::same_bits(we.sum(), seq[0].sum()) || !vf::same_bits(we.sum_of_squares(), seq[0].sum_of_squares()) || we.calls() != seq[0].calls())
            r.violate("equal-weighting", id, describe() + ": a single result is not returned unchanged");
    }
    else if ([&]() { for (auto const& x : seq) if (x.calls() == 0) return true; return false; }())
    {
        // equal weighting takes every result as it is; the estimate of a zero-call result is NaN: only the counters are defined
        if (we.calls() != calls || we.non_zero_calls() != nz || we.finite_calls() != fin)
            r.violate("counters-do-not-add", id, describe() + ": equal weighting, counters");
    }
    else
    {
        L s1 = 0, s2 = 0, ea = 0;
        for (auto const& x : seq) { L const e = x.value(); s1 += e; s2 += e * e; ea = std::max(ea, std::fabs(e)); }
        L const mean = s1 / m, vref = (s2 / m - mean * mean) / (m - 1);
        L const n = calls;
        L const etol = 32 * eps * ea + 1e-4900L;
        L const vtol = 32 * eps * (std::fabs(vref) + s2 / m / (m - 1) + mean * mean / (n - 1));
        if (we.calls() != calls || we.non_zero_calls() != nz || we.finite_calls() != fin)
            r.violate("counters-do-not-add", id, describe() + ": equal weighting, counters");
        if (!close<T>(we.value(), mean, etol))
            r.violate("equal-weighting", id, describe() + ": mean " + vf::dec(L(we.value())) + " expected " + vf::dec(mean));
        // the error is stored through sqrt(): a slightly negative argument gives NaN, accept when within tolerance of 0
        L const v = we.variance();
        if (std::isnan(v)) { if (vref > vtol) r.violate("equal-weighting", id, describe() + ": variance NaN, expected " + vf::dec(vref)); }
        else if (!close<T>(v, std::max(vref, L(0)), vtol))
            r.violate("equal-weighting", id, describe() + ": variance of the mean " + vf::dec(v) + " expected " + vf::dec(vref) + " tol " + vf::dec(vtol));
    }

    // ---- chi^2/dof ----
    T const chi = hep::chi_square_dof<hep::weighted_with_variance>(seq.begin(), seq.end());
    if (m == 0) { if (chi != T()) r.violate("chi-square", id, "chi^2/dof of no result is " + vf::dec(L(chi))); }
    else if (m == 1) { if (!(std::isinf(chi) && chi > 0)) r.violate("chi-square", id, describe() + ": chi^2/dof of one result is " + vf::dec(L(chi))); }
    else if (!any_empty)
    {
        L const e = ww.value();
        L ref = 0, tol = 0;
        for (auto const& x : seq)
        {
            L const d = L(x.value()) - e, v = x.variance();
            ref += d * d / v;
            tol += (2 * std::fabs(d) * 64 * eps * (std::fabs(L(x.value())) + std::fabs(e)) + 64 * eps * d * d) / v;
        }
        ref /= (m - 1); tol /= (m - 1);
        if (!(chi >= T())) r.violate("chi-square", id, describe() + ": chi^2/dof = " + vf::dec(L(chi)) + " is not >= 0");
        else if (!close<T>(chi, ref, tol + 64 * eps * ref))
            r.violate("chi-square", id, describe() + ": chi^2/dof = " + vf::dec(L(chi)) + " expected " + vf::dec(ref) + " tol " + vf::dec(tol));
    }
    r.outcome("contributing results", contributing);
    if (m >= 2) r.distinct(vf::hash_str(id));
    if (r.wants_sample() && m == 3 && any_empty) r.sample(describe() + " -> " + vf::dec(L(ww.value())) + " +- " + vf::dec(L(ww.error())));
}

template <typename T>
static void enumerate(report& r, int reduced, sz min_len, sz max_len, char const* tag)
{
    auto const alpha = alphabet<T>(reduced);
    for (sz len = min_len; len <= max_len; ++len)
    {
        std::vector<sz> idx(len, 0);
        for (;;)
        {
            std::string const id = std::string(vf::type_name<T>()) + " " + tag + " " + vf::join(idx);
            if (r.want(id)) check_sequence(r, alpha, idx, id);
            sz k = 0;
            while (k != len && ++idx[k] == alpha.size()) { idx[k] = 0; ++k; }
            if (k == len) break;
        }
        if (r.deadline_hit()) return;
    }
}

// ---- distributions: every bin is combined independently ---------------------------------------------

// the distributions of a combination, whatever type the combination has (a range of results that carry
// distributions must give a result that carries them, too)
template <typename T>
struct dists_of
{
    static std::vector<hep::distribution_result<T>> const* get(hep::plain_result<T> const& r) { return &r.distributions(); }
    static std::vector<hep::distribution_result<T>> const* get(hep::mc_result<T> const&) { return nullptr; }
};

template <typename T, template <typename> class Acc>
static void bins_case(report& r, std::vector<item<T>> const& alpha, std::vector<std::vector<sz>> const& per_result,
    sz ndist, std::string const& id)
{
    // per_result[i] = indices (integrated, bins of d0 (6), bins of d1 (2 x 2 = 4, two-dimensional)): the distributions
    // have different numbers of bins, the first one more than the second
    r.eval();
    auto nbins = [](sz d) { return d == 0 ? sz(6) : sz(4); };
    auto first = [](sz d) { return d == 0 ? sz(1) : sz(7); };
    std::vector<hep::plain_result<T>> seq;
    for (auto const& pr : per_result)
    {
        std::vector<hep::distribution_result<T>> dists;
        for (sz d = 0; d != ndist; ++d)
        {
            std::vector<hep::mc_result<T>> bins;
            for (sz b = 0; b != nbins(d); ++b) bins.push_back(alpha[pr[first(d) + b]].res);
            if (d == 0) dists.emplace_back(hep::make_dist_params<T>(6, T(0), T(1), "d0"), bins);
            else dists.emplace_back(hep::distribution_parameters<T>(2, 2, T(0), T(1), T(0), T(1), "d1"), bins);
        }
        auto const& in = alpha[pr[0]].res;
        seq.emplace_back(dists, in.calls(), in.non_zero_calls(), in.finite_calls(), in.sum(), in.sum_of_squares());
    }
    auto const comb = hep::accumulate<Acc>(seq.begin(), seq.end());
    auto same = [](hep::mc_result<T> const& a, hep::mc_result<T> const& b) {
        return a.calls() == b.calls() && a.non_zero_calls() == b.non_zero_calls() && a.finite_calls() == b.finite_calls()
            && (vf::same_bits(a.sum(), b.sum()) || (std::isnan(a.sum()) && std::isnan(b.sum())))
            && (vf::same_bits(a.sum_of_squares(), b.sum_of_squares()) || (std::isnan(a.sum_of_squares()) && std::isnan(b.sum_of_squares())));
    };
    std::vector<hep::mc_result<T>> col;
    for (auto const& pr : per_result) col.push_back(alpha[pr[0]].res);
    if (!same(comb, hep::accumulate<Acc>(col.begin(), col.end())))
        r.violate("bin-wise-combination", id, id + ": integrated part differs from combining the plain results");
    if (comb.distributions().size() != (seq.empty() ? 0 : ndist))
    {
        r.violate("bin-wise-combination", id, id + ": " + std::to_string(comb.distributions().size()) + " distributions in the combination");
        return;
    }
    for (sz d = 0; d != comb.distributions().size(); ++d)
    {
        if (comb.distributions()[d].results().size() != nbins(d))
        { r.violate("bin-wise-combination", id, id + ": distribution " + std::to_string(d) + " has " + std::to_string(comb.distributions()[d].results().size()) + " combined bins, the inputs have " + std::to_string(nbins(d))); return; }
        if (comb.distributions()[d].parameters().name() != "d" + std::to_string(d)) r.violate("bin-wise-combination", id, id + ": parameters not carried over");
        for (sz b = 0; b != nbins(d); ++b)
        {
            col.clear();
            for (auto const& pr : per_result) col.push_back(alpha[pr[first(d) + b]].res);
            if (!same(comb.distributions()[d].results()[b], hep::accumulate<Acc>(col.begin(), col.end())))
                r.violate("bin-wise-combination", id, id + ": distribution " + std::to_string(d) + " bin " + std::to_string(b)
                    + " differs from combining that bin's results alone");
        }
    }
    // ranges of the integrators' own result types (derived from plain_result) are combined in the same way
    {
        hep::vegas_pdf<T> pdf(1, 2);
        std::vector<hep::vegas_result<T>> vseq;
        std::vector<hep::multi_channel_result<T>> mseq;
        for (auto const& p : seq)
        {
            vseq.emplace_back(p, pdf, std::vector<T>(2, T(1)));
            mseq.emplace_back(p, std::vector<T>(2, T(1)), std::vector<T>(2, T(0.5)));
        }
        auto const vc = hep::accumulate<Acc>(vseq.begin(), vseq.end());
        auto const mc = hep::accumulate<Acc>(mseq.begin(), mseq.end());
        struct { char const* what; hep::mc_result<T> const* res; std::vector<hep::distribution_result<T>> const* d; } const derived[] =
            {{"vegas_result", &vc, dists_of<T>::get(vc)}, {"multi_channel_result", &mc, dists_of<T>::get(mc)}};
        for (auto const& dv : derived)
        {
            bool ok = same(*dv.res, comb) && dv.d != nullptr && dv.d->size() == comb.distributions().size();
            for (sz d = 0; ok && d != dv.d->size(); ++d)
            {
                ok = (*dv.d)[d].results().size() == comb.distributions()[d].results().size();
                for (sz b = 0; ok && b != (*dv.d)[d].results().size(); ++b) ok = same((*dv.d)[d].results()[b], comb.distributions()[d].results()[b]);
            }
            if (!ok) r.violate("bin-wise-combination", id, id + ": a range of " + dv.what + " is not combined like the same range of plain_result"
                + (dv.d == nullptr ? " (the combination carries no distributions at all)" : ""));
        }
    }
    r.distinct(vf::hash_str(id));
}

template <typename T>
static void distributions(report& r)
{
    auto const alpha = alphabet<T>(1);
    // a small set of "columns": each result picks (integrated, 2 bins x ndist) from a cyclic pattern
    sz const n = alpha.size();
    for (sz ndist = 0; ndist <= 2; ++ndist)
    for (sz len = 0; len <= 3; ++len)
    for (sz start = 0; start < n; start += 1)
    for (sz stride : {sz(1), sz(7)})
    {
        std::vector<std::vector<sz>> per_result(len);
        for (sz i = 0; i != len; ++i)
            for (sz k = 0; k != 1 + (ndist >= 1 ? 6 : 0) + (ndist >= 2 ? 4 : 0); ++k)
                per_result[i].push_back((start + stride * (i * 5 + k * 3)) % n);
        bool usable = true;
        for (auto const& pr : per_result) for (sz k : pr) usable &= alpha[k].usable;
        if (!usable) continue;
        std::string const id = std::string(vf::type_name<T>()) + " dist n=" + std::to_string(ndist) + " len=" + std::to_string(len)
            + " start=" + std::to_string(start) + " stride=" + std::to_string(stride);
        if (r.want(id + " var")) bins_case<T, hep::weighted_with_variance>(r, alpha, per_result, ndist, id + " var");
        if (r.want(id + " eq")) bins_case<T, hep::weighted_equally>(r, alpha, per_result, ndist, id + " eq");
    }
}

template <typename T>
static void for_type(report& r)
{
    if (!r.want_prefix(vf::type_name<T>())) return;
    enumerate<T>(r, 0, 0, 3, "full");
    enumerate<T>(r, 1, 4, r.a().thorough() ? 5 : 4, "reduced");
    if (r.a().thorough()) enumerate<T>(r, 2, 4, 4, "medium");
    distributions<T>(r);
}

int main(int argc, char** argv)
{
    auto const a = vf::parse_args(argc, argv);
    report r(a);
    if (a.nshards == 1 || a.shard % 3 == 0) for_type<float>(r);
    if (a.nshards == 1 || a.shard % 3 == 1) for_type<double>(r);
    if (a.nshards == 1 || a.shard % 3 == 2) for_type<long double>(r);
    return r.finish();
}
