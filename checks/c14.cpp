// C14 — long sums do not lose accuracy with the number of calls.
//  (a) every sequence of length <= 7 (thorough 9) over {+-1, +-h, +-2^12}, h just above half an ulp
//      of 1, through hep::plain_iteration (integral, with and without distributions) and through
//      projector.add (one bin), against the exact sum in 128-bit fixed point;
//  (b) "prefix then k copies" block sequences, k up to 10^7, exact oracle;
//  (c) named adversarial families (one large then many small, alternating, geometric), N up to
//      10^7, __float128 oracle.
// Bound: |sum - exact| <= 2 eps_T sum|v|, independent of N.
#include "common.hpp"
#include "engines.hpp"
#include "mcmodel.hpp"

#include "hep/mc.hpp"

#include <cmath>
#include <functional>

using vf::report;
typedef std::size_t sz;
typedef __int128 i128;

template <typename T> struct fx
{
    static constexpr int p = std::numeric_limits<T>::digits;
    static constexpr int shift = p + 10;            // unit = 2^-(p+10)
    static i128 to_fixed(T v) { return static_cast<i128>(std::ldexp(static_cast<long double>(v), shift)); }
};

template <typename T>
static std::vector<T> alphabet()
{
    T const h = std::ldexp(T(1), -fx<T>::p) * (T(1) + std::ldexp(T(1), -10));
    return {T(1), T(-1), h, -h, T(4096), T(-4096)};
}

template <typename T>
struct seq_fn
{
    std::function<T(sz)> const* value;
    sz* counter;
    T operator()(hep::mc_point<T> const&) const { return (*value)((*counter)++); }
    T operator()(hep::mc_point<T> const&, hep::projector<T>& proj) const
    {
        sz const k = (*counter)++;
        T const v = (*value)(k);
        proj.add(0, T(0.75), v);     // second of two bins
        // two more distributions with several bins: call k goes to bin k % 3 resp. k % 2, so that every bin
        // accumulates its own subsequence next to its neighbours (separate compensation per bin)
        proj.add(1, (T(k % 3) + T(0.5)) / T(3) * T(0.7L), v);      // three bins on [0, 0.7]: the inverse width is no round number
        proj.add(2, (T(k % 2) + T(0.5)) / T(2), T(0.5), v);
        proj.add(3, T(512) + T(1024) * T(k % 2), v);                  // two bins of width 1024 (bin area far above one)
        proj.add(4, T(0.5), v); proj.add(4, T(0.25), v);              // one bin that every call fills twice (two objects of one event)
        return v;
    }
};

// bin sums of the further distributions: 3 + 2 + 2 + 1 values
template <typename T>
struct sums { T plain, with_dist, bin; sz calls_seen; T more[8]; };

template <typename T>
static sums<T> run(std::function<T(sz)> const& value, sz n)
{
    sums<T> s;
    sz counter = 0;
    vf::script_engine g1, g2;
    auto const r1 = hep::plain_iteration(hep::make_integrand<T>(seq_fn<T>{&value, &counter}, 1), n, g1);
    s.plain = r1.sum();
    s.calls_seen = counter;
    counter = 0;
    auto const r2 = hep::plain_iteration(hep::make_integrand<T>(seq_fn<T>{&value, &counter}, 1,
        hep::make_dist_params<T>(2, T(0), T(1), "bin"), hep::make_dist_params<T>(3, T(0), T(0.7L), "three"),
        hep::distribution_parameters<T>(2, 1, T(0), T(1), T(0), T(1), "two"), hep::make_dist_params<T>(2, T(0), T(2048), "wide"), hep::make_dist_params<T>(1, T(0), T(1), "twice")), n, g2);
    s.with_dist = r2.sum();
    // the first distribution has two bins of width 1/2; everything goes to the second one (the division by 2 is exact)
    s.bin = r2.distributions().at(0).results().at(1).sum() / T(2);
    // bin widths 1/3 and 1/2: the reported sums are divided by the bin area, undo it exactly where possible
    for (sz b = 0; b != 3; ++b) s.more[b] = r2.distributions().at(1).results().at(b).sum();
    for (sz b = 0; b != 2; ++b) s.more[3 + b] = r2.distributions().at(2).results().at(b).sum();
    for (sz b = 0; b != 2; ++b) s.more[5 + b] = r2.distributions().at(3).results().at(b).sum();
    s.more[7] = r2.distributions().at(4).results().at(0).sum();
    return s;
}

// bins of the multi-bin distributions: value = (sum over the bin's subsequence) / area with area 1/3 resp. 1/2.
// The division by the area is one more rounding, so the bound is 3 eps instead of 2.
template <typename T>
static void judge_more(report& r, sums<T> const& s, std::function<T(sz)> const& value, sz n, std::string const& id, std::string const& desc)
{
    __float128 ex[8] = {0, 0, 0, 0, 0, 0, 0, 0}, mg[8] = {0, 0, 0, 0, 0, 0, 0, 0};
    for (sz k = 0; k != n; ++k)
    {
        T const tv = value(k);
        if (!std::isfinite(tv)) continue;          // a non-finite value is not a sampled value of any sum
        __float128 const v = tv;
        ex[k % 3] += v; mg[k % 3] += v < 0 ? -v : v;
        ex[3 + k % 2] += v; mg[3 + k % 2] += v < 0 ? -v : v;
        ex[5 + k % 2] += v; mg[5 + k % 2] += v < 0 ? -v : v;
        ex[7] += 2 * v; mg[7] += 2 * (v < 0 ? -v : v);
    }
    // bin width of the three-bin distribution exactly as the library stores it
    __float128 const width3 = static_cast<__float128>(hep::make_dist_params<T>(3, T(0), T(0.7L), "three").bin_size_x());
    for (sz b = 0; b != 8; ++b)
    {
        __float128 const scale = b < 3 ? 1 / width3 : b < 5 ? 2 : b < 7 ? static_cast<__float128>(1) / 1024 : 1;
        __float128 d = static_cast<__float128>(s.more[b]) - ex[b] * scale;
        if (d < 0) d = -d;
        // (the division by the bin width is one more rounding: relative for normal results, one subnormal step otherwise)
        if (!(d <= 3 * static_cast<__float128>(std::numeric_limits<T>::epsilon()) * mg[b] * scale + 2 * static_cast<__float128>(std::numeric_limits<T>::denorm_min())))
        {
            r.violate("accuracy-lost/bin-of-multi-bin-distribution", id, std::string(vf::type_name<T>()) + " " + desc + ": bin " + std::to_string(b < 3 ? b : b < 5 ? b - 3 : b < 7 ? b - 5 : 0) + " of distribution "
                + (b < 3 ? "1" : b < 5 ? "2" : b < 7 ? "3 (bins of width 1024)" : "4 (filled twice per call)") + " reports " + vf::dec(static_cast<long double>(s.more[b])) + ", exact " + vf::dec(static_cast<long double>(ex[b] * scale)) + ", error "
                + vf::dec(static_cast<long double>(d / (static_cast<__float128>(std::numeric_limits<T>::epsilon()) * mg[b] * scale))) + " eps*sum|v| (bound 3)");
            return;
        }
    }
}

template <typename T>
static void judge_exact(report& r, sums<T> const& s, i128 exact, i128 mag, std::string const& id, std::string const& desc)
{
    int const p = fx<T>::p;
    i128 const bound = (mag >> (p - 2)) + 1;   // 2 eps sum|v| = 2^(2-p) sum|v|
    struct { char const* what; T v; } const outs[] = {{"integral", s.plain}, {"integral-with-distributions", s.with_dist}, {"bin", s.bin}};
    for (auto const& o : outs)
    {
        if (!std::isfinite(o.v)) { r.violate(std::string("accuracy-lost/") + o.what, id, std::string(vf::type_name<T>()) + " " + desc + ": " + o.what + " sum is not finite"); continue; }
        i128 const got = fx<T>::to_fixed(o.v);
        i128 const diff = got > exact ? got - exact : exact - got;
        if (diff > bound)
        {
            long double const unit = std::ldexp(1.0L, -fx<T>::shift);
            r.violate(std::string("accuracy-lost/") + o.what, id, std::string(vf::type_name<T>()) + " " + desc + ": " + o.what + " sum "
                + vf::dec(static_cast<long double>(o.v)) + ", exact " + vf::dec(static_cast<long double>(exact) * unit) + ", error "
                + vf::dec(static_cast<long double>(diff) * unit / std::numeric_limits<T>::epsilon() / (static_cast<long double>(mag) * unit))
                + " eps*sum|v| (bound 2)");
        }
    }
}

template <typename T>
static void part_a(report& r, sz max_len)
{
    auto const alpha = alphabet<T>();
    std::string const tn = vf::type_name<T>();
    for (sz len = 1; len <= max_len; ++len)
    {
        std::vector<sz> idx(len, 0);
        for (;;)
        {
            bool exec = true;
            std::string id;
            if (r.a().replay) { id = tn + " seq " + vf::join(idx); exec = r.want(id); }
            if (exec)
            {
                i128 exact = 0, mag = 0;
                T naive = T();
                for (sz i : idx) { i128 const f = fx<T>::to_fixed(alpha[i]); exact += f; mag += f < 0 ? -f : f; naive += alpha[i]; }
                std::function<T(sz)> const value = [&](sz k) { return alpha[idx[k]]; };
                auto const s = run<T>(value, len);
                r.eval();
                if (s.calls_seen != len) r.violate("wrong-number-of-calls", id.empty() ? tn + " seq " + vf::join(idx) : id, "integrand called " + std::to_string(s.calls_seen) + " times for " + std::to_string(len));
                if (id.empty() && (fx<T>::to_fixed(s.plain) != exact || r.violation_count())) id = tn + " seq " + vf::join(idx);
                judge_exact<T>(r, s, exact, mag, id.empty() ? tn + " seq " + vf::join(idx) : id, "sequence of alphabet indices " + vf::join(idx));
                judge_more<T>(r, s, value, len, id.empty() ? tn + " seq " + vf::join(idx) : id, "sequence of alphabet indices " + vf::join(idx));
                if (fx<T>::to_fixed(naive) != exact)
                {
                    // non-trivial: naive left-to-right summation in T is not exact for this sequence
                    std::uint64_t h = 1469598103934665603ULL ^ (std::uint64_t(fx<T>::p) << 56);
                    for (sz i : idx) h = (h ^ (i + 1)) * 1099511628211ULL;
                    r.distinct(h ^ (len << 48));
                    if (r.wants_sample() && len == 6) r.sample(tn + " seq " + vf::join(idx) + ": naive sum off, hep-mc sum exact=" + (fx<T>::to_fixed(s.plain) == exact ? "yes" : "no"));
                }
            }
            sz k = 0;
            while (k != len && ++idx[k] == alpha.size()) { idx[k] = 0; ++k; }
            if (k == len) break;
        }
        if (r.deadline_hit()) return;
    }
}

template <typename T>
static void part_b(report& r, bool thorough)
{
    auto const alpha = alphabet<T>();
    std::string const tn = vf::type_name<T>();
    for (sz plen = 0; plen <= (thorough ? 3 : 2); ++plen)
    {
        std::vector<sz> idx(plen, 0);
        for (;;)
        {
            for (sz a = 0; a != alpha.size(); ++a)
            {
                sz const kmax = plen <= 1 ? (thorough ? 10000000 : 100000) : (plen == 2 ? (thorough ? 100000 : 10000) : 10000);
                for (sz k = 10; k <= kmax; k *= 10)
                {
                    std::string const id = tn + " block prefix=" + vf::join(idx) + " a=" + std::to_string(a) + " k=" + std::to_string(k);
                    if (!r.want(id)) continue;
                    i128 exact = 0, mag = 0;
                    for (sz i : idx) { i128 const f = fx<T>::to_fixed(alpha[i]); exact += f; mag += f < 0 ? -f : f; }
                    i128 const fa = fx<T>::to_fixed(alpha[a]);
                    exact += fa * static_cast<i128>(k); mag += (fa < 0 ? -fa : fa) * static_cast<i128>(k);
                    std::function<T(sz)> const value = [&](sz j) { return j < plen ? alpha[idx[j]] : alpha[a]; };
                    auto const s = run<T>(value, plen + k);
                    r.eval();
                    r.count("values_summed", 2 * (plen + k));
                    judge_exact<T>(r, s, exact, mag, id, "prefix " + vf::join(idx) + " then " + std::to_string(k) + " x alphabet[" + std::to_string(a) + "]");
                    judge_more<T>(r, s, value, plen + k, id, "prefix " + vf::join(idx) + " then " + std::to_string(k) + " x alphabet[" + std::to_string(a) + "]");
                    r.distinct(vf::hash_str(id));
                }
            }
            sz k = 0;
            while (k != plen && ++idx[k] == alpha.size()) { idx[k] = 0; ++k; }
            if (k == plen) break;
            if (r.deadline_hit()) return;
        }
    }
}

// Sampled values f x w with weights that are no round numbers (an adapted VEGAS grid; channel densities): the
// integrand records the exactly rounded product it is about to contribute, and the reported sum is compared
// with the exact sum of these products.
template <typename T>
struct weighted_fn
{
    std::function<T(sz)> const* value;
    sz* counter;
    __float128* exact;
    __float128* mag;
    template <typename P> T note(P const& p) const
    {
        T const v = (*value)((*counter)++);
        if (v != T())
        {
            T const prod = v * p.weight();
            if (std::isfinite(prod)) { *exact += prod; *mag += prod < 0 ? -prod : prod; }
        }
        return v;
    }
    T operator()(hep::vegas_point<T> const& p) const { return note(p); }
    T operator()(hep::multi_channel_point<T> const& p) const { return note(p); }
    T operator()(hep::vegas_point<T> const& p, hep::projector<T>& proj) const { T const v = note(p); proj.add(0, T(0.5), v); proj.add(1, T(0.5), T(0.5), v); return v; }
    T operator()(hep::multi_channel_point<T> const& p, hep::projector<T>& proj) const { T const v = note(p); proj.add(0, T(0.5), v); proj.add(1, T(0.5), T(0.5), v); return v; }
};

template <typename T>
static void weighted_case(report& r, std::function<T(sz)> const& value, sz n, std::string const& id)
{
    T const eps = std::numeric_limits<T>::epsilon();
    for (int kind = 0; kind != 4; ++kind)     // VEGAS / multi-channel, without / with a distribution
    {
        sz counter = 0;
        __float128 exact = 0, mag = 0;
        weighted_fn<T> fn{&value, &counter, &exact, &mag};
        vf::script_engine gen;
        T sum, bin1 = T(), bin2 = T();     // with distributions: the single bin of a 1-d and of a 2-d distribution (area 1) holds everything
        if (kind < 2)
        {
            hep::vegas_pdf<T> pdf(1, 3);
            pdf.set_bin_left(0, 1, T(1) / T(7)); pdf.set_bin_left(0, 2, T(0.7L));
            if (kind == 0) sum = hep::vegas_iteration(hep::make_integrand<T>(fn, 1), n, pdf, gen).sum();
            else
            {
                auto const res = hep::vegas_iteration(hep::make_integrand<T>(fn, 1, hep::make_dist_params<T>(1, T(0), T(1), "d"), hep::distribution_parameters<T>(1, 1, T(0), T(1), T(0), T(1), "d2")), n, pdf, gen);
                sum = res.sum(); bin1 = res.distributions().at(0).results().at(0).sum(); bin2 = res.distributions().at(1).results().at(0).sum();
            }
        }
        else
        {
            vf::pl_map<T> map; map.split = {T(1) / T(3), T(0.7L)}; map.dims = 1;
            std::vector<T> const w = {T(1) / T(3), T(2) / T(3)};
            if (kind == 2) sum = hep::multi_channel_iteration(hep::make_multi_channel_integrand<T>(fn, 1, map, 1, 2), n, w, gen).sum();
            else
            {
                auto const res = hep::multi_channel_iteration(hep::make_multi_channel_integrand<T>(fn, 1, map, 1, 2, hep::make_dist_params<T>(1, T(0), T(1), "d"),
                    hep::distribution_parameters<T>(1, 1, T(0), T(1), T(0), T(1), "d2")), n, w, gen);
                sum = res.sum(); bin1 = res.distributions().at(0).results().at(0).sum(); bin2 = res.distributions().at(1).results().at(0).sum();
            }
        }
        r.count("values_summed", n);
        __float128 d = static_cast<__float128>(sum) - exact;
        if (d < 0) d = -d;
        if (kind % 2 == 1)
            for (T b : {bin1, bin2})
            {
                __float128 db = static_cast<__float128>(b) - exact;
                if (db < 0) db = -db;
                if (db > d) d = db;     // the worst of the integral and the two bins
            }
        if (!(d <= 2 * static_cast<__float128>(eps) * mag))
        {
            char const* const names[] = {"vegas", "vegas-with-distribution", "multi_channel", "multi_channel-with-distribution"};
            r.violate(std::string("accuracy-lost/weighted-values/") + names[kind], id, id + ": " + names[kind] + " sum " + vf::dec(static_cast<long double>(sum))
                + ", exact sum of the products f x weight " + vf::dec(static_cast<long double>(exact)) + ", error "
                + vf::dec(static_cast<long double>(d / (static_cast<__float128>(eps) * mag))) + " eps*sum|v| (bound 2)");
        }
    }
}

template <typename T>
static void part_c(report& r, bool thorough)
{
    std::string const tn = vf::type_name<T>();
    T const eps = std::numeric_limits<T>::epsilon();
    struct family { char const* name; std::function<T(sz)> value; };
    T const third = T(1) / T(3);
    std::vector<family> const fams = {
        {"one-large-then-small", [=](sz i) { return i == 0 ? T(1) : eps * T(0.75); }},
        {"one-large-then-small-negative", [=](sz i) { return i == 0 ? T(4096) : -eps * T(0.75); }},
        {"alternating", [=](sz i) { return (i % 2 ? T(-1) : T(1)) * (T(1) + T(i % 7) * eps); }},
        {"alternating-growing", [=](sz i) { return (i % 2 ? T(-1) : T(1)) * T(1 + i % 1000) * third; }},
        {"geometric-1/2", [=](sz i) { return std::ldexp(T(1), -int(i % 200)); }},
        {"geometric-1/3", [=](sz i) { return std::pow(third, T(i % 60)); }},
        {"geometric-0.99", [=](sz i) { return std::pow(T(0.99L), T(i % 3000)); }},
        {"large-and-small-bins", [=](sz i) { return i % 3 == 0 ? std::ldexp(T(1) + T(i % 5) * eps, 30) : T(1) + T(i % 11) * eps; }},
        // the same shapes scaled to the bottom of the exponent range (compensations are subnormal there)
        {"tiny/one-large-then-small", [=](sz i) { T const sc = std::ldexp(T(1), std::numeric_limits<T>::min_exponent + 3); return (i == 0 ? T(1) : eps * T(0.75)) * sc; }},
        {"tiny/alternating", [=](sz i) { T const sc = std::ldexp(T(1), std::numeric_limits<T>::min_exponent + 3); return (i % 2 ? T(-1) : T(1)) * (T(1) + T(i % 7) * eps) * sc; }},
        // a few values whose squares overflow (the sum of squares is lost, the sum must not be)
        {"few-huge-values", [=](sz i) { return i % 1000 == 7 ? std::ldexp(T(1) + T(i % 3) * eps, std::numeric_limits<T>::max_exponent / 2 + 10) * (i % 2000 == 7 ? T(1) : T(-1)) : T(1) + T(i % 5) * eps; }},
        // a few non-finite evaluations in between: they are no part of any sum, and the values after them still are
        {"sparse-non-finite", [=](sz i) { return i % 997 == 5 ? (i % 3 == 0 ? std::numeric_limits<T>::quiet_NaN() : i % 3 == 1 ? std::numeric_limits<T>::infinity() : -std::numeric_limits<T>::infinity())
            : (i % 2 ? T(-1) : T(1)) * (T(1) + T(i % 7) * eps) + (i < 3 ? T(4096) : T()); }},
        // the pending compensation must survive an ignored non-finite value
        {"one-large-then-small-with-non-finite", [=](sz i) { return i == 0 ? T(1) : i % 4 == 2 ? (i % 8 == 2 ? std::numeric_limits<T>::infinity() : std::numeric_limits<T>::quiet_NaN()) : eps * T(0.75); }},
        {"mixed-magnitudes", [=](sz i) { return std::ldexp(T(1) + T(vf::splitmix64(i) % 1024) * eps, int(vf::splitmix64(i + 77) % 40) - 20) * ((vf::splitmix64(i + 5) & 1) ? T(1) : T(-1)); }},
    };
    for (auto const& f : fams)
    {
        for (sz n = 1; n <= (thorough ? 10000000 : 100000); n *= 10)
        {
            std::string const id = tn + " family " + f.name + " N=" + std::to_string(n);
            if (!r.want(id)) continue;
            __float128 exact = 0, mag = 0;
            for (sz i = 0; i != n; ++i) { T const tv = f.value(i); if (!std::isfinite(tv)) continue; __float128 const v = tv; exact += v; mag += v < 0 ? -v : v; }
            auto const s = run<T>(f.value, n);
            r.eval();
            r.count("values_summed", 2 * n);
            struct { char const* what; T v; } const outs[] = {{"integral", s.plain}, {"integral-with-distributions", s.with_dist}, {"bin", s.bin}};
            for (auto const& o : outs)
            {
                __float128 d = static_cast<__float128>(o.v) - exact;
                if (d < 0) d = -d;
                if (!(d <= 2 * static_cast<__float128>(eps) * mag))
                    r.violate(std::string("accuracy-lost/") + o.what, id, id + ": " + o.what + " sum " + vf::dec(static_cast<long double>(o.v))
                        + ", exact " + vf::dec(static_cast<long double>(exact)) + ", error "
                        + vf::dec(static_cast<long double>(d / (static_cast<__float128>(eps) * mag))) + " eps*sum|v| (bound 2)");
            }
            judge_more<T>(r, s, f.value, n, id, id);
            if (n >= 100 && n <= 100000) weighted_case<T>(r, f.value, n, id);
            r.distinct(vf::hash_str(id));
            if (r.deadline_hit()) return;
        }
    }
}

template <typename T>
static void for_type(report& r)
{
    std::string const tn = vf::type_name<T>();
    if (!r.want_prefix(tn)) return;
    vf::script_engine::table().clear();
    if (r.want_prefix(tn + " seq")) part_a<T>(r, r.a().thorough() ? 9 : 7);
    if (r.want_prefix(tn + " block")) part_b<T>(r, r.a().thorough());
    if (r.want_prefix(tn + " family")) part_c<T>(r, r.a().thorough());
}

int main(int argc, char** argv)
{
    auto const a = vf::parse_args(argc, argv);
    report r(a);
    if (a.nshards == 1 || a.shard % 3 == 0) for_type<float>(r);
    if (a.nshards == 1 || a.shard % 3 == 1) for_type<double>(r);
    if (a.nshards == 1 || a.shard % 3 == 2) for_type<long double>(r);
    return r.finish();
}
