// C15 — rolling a checkpoint back to iteration k reproduces the run that stopped after k.
// Exploration of operation histories on real checkpoint objects: run(1), run(2), reload (serialise +
// parse), rollback(k) for every k in 0..n+1.  Reference model = list of golden texts G_k of the
// uninterrupted run.  (1) explicit-state BFS with canonical state = text + "came through text with
// results" flag; (2) stateless DFS over all histories to a fixed depth, without state merging, as a
// guard against a too coarse canonical state.  Built with ASan/UBSan and _GLIBCXX_ASSERTIONS.
#include "common.hpp"
#include "engines.hpp"
#include "fields.hpp"
#include "mcmodel.hpp"

#include "hep/mc.hpp"

#include <cmath>
#include <deque>
#include <map>
#include <set>

using vf::report;
typedef std::size_t sz;

static std::vector<sz> const g_calls = {5, 3, 7, 4};
static sz const g_max_iter = 4;

template <typename T>
struct smooth
{
    T operator()(hep::mc_point<T> const& p) const
    {
        T v = T(1);
        for (T x : p.point()) v *= T(0.5) + x * x * T(3);
        return v;
    }
};

template <typename T>
struct smooth_mc
{
    T operator()(hep::multi_channel_point<T> const& p) const
    {
        T const y = p.coordinates()[0];
        return y < T(0.3L) ? T(4) * y : T(0.25);
    }
};

// configuration: 0 PLAIN, 1 VEGAS default, 2 VEGAS user grid, 3 MC default, 4 MC user weights with a disabled channel,
// 5 MC user weights with a disabled channel and one weight below the minimum weight
template <typename T, typename E>
struct world
{
    int cfg;
    using plain_t = hep::plain_chkpt_with_rng<E, T>;
    using vegas_t = hep::vegas_chkpt_with_rng<E, T>;
    using mc_t = hep::multi_channel_chkpt_with_rng<E, T>;
};

template <typename T, typename E, typename C> struct ops;

template <typename T, typename E>
struct ops<T, E, hep::plain_chkpt_with_rng<E, T>>
{
    using C = hep::plain_chkpt_with_rng<E, T>;
    static C fresh(int) { E g; g.seed(99); return hep::make_plain_chkpt<T, E>(g); }
    static C run(C const& c, std::vector<sz> const& calls) { return hep::plain(hep::make_integrand<T>(smooth<T>(), 2), calls, c, vf::never_stop()); }
    static C load(std::istream& in) { return hep::make_plain_chkpt<T, E>(in); }
};

template <typename T, typename E>
struct ops<T, E, hep::vegas_chkpt_with_rng<E, T>>
{
    using C = hep::vegas_chkpt_with_rng<E, T>;
    static C fresh(int cfg)
    {
        E g; g.seed(99);
        if (cfg == 1) return hep::make_vegas_chkpt<T, E>(4, T(1.5), g);
        hep::vegas_pdf<T> pdf(2, 4);
        pdf.set_bin_left(0, 1, T(0.1L)); pdf.set_bin_left(1, 3, T(0.9L));
        return hep::make_vegas_chkpt<T, E>(pdf, T(23) / T(30), g);   // needs every digit
    }
    static C run(C const& c, std::vector<sz> const& calls) { return hep::vegas(hep::make_integrand<T>(smooth<T>(), 2), calls, c, vf::never_stop()); }
    static C load(std::istream& in) { return hep::make_vegas_chkpt<T, E>(in); }
};

template <typename T, typename E>
struct ops<T, E, hep::multi_channel_chkpt_with_rng<E, T>>
{
    using C = hep::multi_channel_chkpt_with_rng<E, T>;
    static C fresh(int cfg)
    {
        E g; g.seed(99);
        if (cfg == 3) return hep::make_multi_channel_chkpt<T, E>(T(0.01L), T(0.25), g);
        // cfg 5: one user weight lies below the minimum weight and is raised by the constructor
        if (cfg == 5) return hep::make_multi_channel_chkpt<T, E>(std::vector<T>{T(1), T(0), T(40)}, T(1) / T(9), T(5) / T(11), g);
        return hep::make_multi_channel_chkpt<T, E>(std::vector<T>{T(1), T(0), T(3)}, T(1) / T(45), T(5) / T(11), g);
    }
    static C run(C const& c, std::vector<sz> const& calls)
    {
        vf::pl_map<T> map; map.split = {T(0.25), T(0.5), T(0.75)};
        return hep::multi_channel(hep::make_multi_channel_integrand<T>(smooth_mc<T>(), 1, map, 1, 3), calls, c, vf::never_stop());
    }
    static C load(std::istream& in) { return hep::make_multi_channel_chkpt<T, E>(in); }
};

template <typename C>
static std::string text_of(C const& c) { std::ostringstream o; c.serialize(o); return o.str(); }

// op encoding: 'r' run(1), 'R' run(2), 'l' reload, '0'..'5' rollback(k), 'A'..'F' rollback(k) called through a
// reference to the checkpoint's root base class (the member is virtual: what is done must not depend on the
// static type of the reference), 'a'..'c' arguments far beyond the end
template <typename T, typename E, typename C>
struct explorer
{
    report& r;
    int cfg;
    std::string base;
    std::vector<std::string> golden;      // G_0 .. G_max
    std::vector<C> golden_obj;

    struct st { C c; bool from_text; std::string hist; };

    void make_golden()
    {
        C c = ops<T, E, C>::run(ops<T, E, C>::fresh(cfg), {});   // zero iterations: sets dimensions / channels
        golden.push_back(text_of(c)); golden_obj.push_back(c);
        for (sz k = 0; k != g_max_iter; ++k)
        {
            c = ops<T, E, C>::run(c, {g_calls[k]});
            golden.push_back(text_of(c)); golden_obj.push_back(c);
        }
        // the uninterrupted run in one go must agree with the iteration-by-iteration one
        C all = ops<T, E, C>::run(ops<T, E, C>::fresh(cfg), g_calls);
        if (text_of(all) != golden.back())
            r.violate("golden-run-not-reproducible", base + " golden", base + ": running all iterations at once differs from running them one by one in memory");
    }

    std::vector<char> enabled(st const& s) const
    {
        sz const n = s.c.results().size();
        std::vector<char> o;
        if (n + 1 <= g_max_iter) o.push_back('r');
        if (n + 2 <= g_max_iter) o.push_back('R');
        o.push_back('l');
        for (sz k = 0; k <= n + 1; ++k) o.push_back(char('0' + k));
        // arguments far beyond the number of results (congruent to valid ones modulo 2^32, and the extremes)
        o.push_back('a'); o.push_back('b'); o.push_back('c');
        for (sz k = 0; k <= n; ++k) o.push_back(char('A' + k));
        return o;
    }

    // applies one operation and checks the oracle; returns false if the state is unusable
    bool apply(st& s, char op)
    {
        std::string const id = base + " hist=" + s.hist + op;
        sz const n = s.c.results().size();
        std::string const before = text_of(s.c);
        r.transition();
        if (op == 'r' || op == 'R')
        {
            sz const m = op == 'r' ? 1 : 2;
            std::vector<sz> calls(g_calls.begin() + n, g_calls.begin() + n + m);
            s.c = ops<T, E, C>::run(s.c, calls);
        }
        else if (op == 'l')
        {
            std::istringstream in(before);
            C loaded = ops<T, E, C>::load(in);
            if (in.fail()) { r.violate("reload-failed", id, id + ": stream failed while reading the checkpoint back"); return false; }
            s.c = loaded;
            if (n > 0) s.from_text = true;
        }
        else
        {
            bool const via_base = op >= 'A' && op <= 'F';
            sz const k = op == 'a' ? (sz(1) << 32) : op == 'b' ? (sz(1) << 32) + n : op == 'c' ? (sz(1) << 63) + 1 : via_base ? sz(op - 'A') : sz(op - '0');
            bool threw = false;
            try
            {
                if (via_base) static_cast<hep::chkpt<typename C::result_type>&>(s.c).rollback(k);
                else s.c.rollback(k);
            }
            catch (std::out_of_range const&) { threw = true; }
            if (k > n)
            {
                if (!threw) { r.violate("rollback-beyond-end-accepted", id, id + ": rollback(" + std::to_string(k) + ") of a checkpoint with " + std::to_string(n) + " results did not throw std::out_of_range"); return false; }
                if (text_of(s.c) != before) { r.violate("rejected-rollback-changed-checkpoint", id, id + ": rejected rollback changed the checkpoint"); return false; }
                s.hist += op;
                return true;
            }
            if (threw) { r.violate("rollback-rejected", id, id + ": rollback(" + std::to_string(k) + ") with " + std::to_string(n) + " results threw"); return false; }
            if (k == 0) s.from_text = false;
        }
        s.hist += op;
        // oracle: the checkpoint is the golden one for its number of results
        sz const now = s.c.results().size();
        sz const expect_n = (op == 'r') ? n + 1 : (op == 'R') ? n + 2 : (op == 'l' || op >= 'a') ? n : (op >= 'A' && op <= 'F') ? sz(op - 'A') : sz(op - '0');
        if (now != expect_n) { r.violate("wrong-number-of-results", id, id + ": " + std::to_string(now) + " results, expected " + std::to_string(expect_n)); return false; }
        std::string const text = text_of(s.c);
        if (text != golden[now])
        {
            std::string key = (op == 'r' || op == 'R') ? "resume-differs-from-original-run" : (op == 'l') ? "reload-changes-text" : (now == n ? "rollback-to-n-changes-checkpoint" : "rollback-differs-from-short-run");
            std::string const d = vf::first_difference(text, golden[now]);
            r.violate(key, id, id + ": text differs from the run that performed only " + std::to_string(now) + " iterations: " + d);
            return false;
        }
        if (!(s.c.generator() == golden_obj[now].generator()))
        {
            r.violate("generator-differs", id, id + ": generator() differs from the one of the run that performed only " + std::to_string(now) + " iterations");
            return false;
        }
        // the state used by the next iteration must be available (first grid / weights after a rollback to 0)
        if (vf::describe(s.c) != vf::describe(golden_obj[now]))
        {
            r.violate("next-state-differs", id, id + ": accessors differ from the golden checkpoint: " + vf::first_difference(vf::describe(s.c), vf::describe(golden_obj[now])));
            return false;
        }
        return true;
    }

    void bfs()
    {
        std::set<std::string> seen;
        std::deque<st> frontier;
        st init{golden_obj[0], false, ""};
        seen.insert(golden[0] + "|M");
        frontier.push_back(init);
        r.state();
        while (!frontier.empty())
        {
            st s = frontier.front(); frontier.pop_front();
            for (char op : enabled(s))
            {
                st t = s;
                std::string const id = base + " hist=" + s.hist + op;
                if (!r.want(id) && !(r.a().replay && r.a().replay_case.compare(0, id.size(), id) == 0)) continue;
                r.eval();
                if (!apply(t, op)) continue;
                std::string const canon = text_of(t.c) + (t.from_text ? "|T" : "|M");
                if (seen.insert(canon).second) { frontier.push_back(t); r.state(); r.outcome("canonical states", canon); }
            }
        }
    }

    void dfs(st const& s, int depth)
    {
        if (depth == 0) return;
        for (char op : enabled(s))
        {
            st t = s;
            std::string const id = base + " hist=" + s.hist + op;
            bool const exec = r.want(id);
            bool const prefix = r.a().replay && r.a().replay_case.compare(0, id.size(), id) == 0;
            if (!exec && !prefix) continue;
            if (exec) r.eval();
            bool const ok = apply(t, op);
            if (exec) { r.distinct(vf::hash_str(id)); if (r.wants_sample() && depth == 1 && t.hist.find('l') != std::string::npos && t.hist.find('0') != std::string::npos) r.sample(id); }
            if (ok) dfs(t, depth - 1);
        }
    }
};

template <typename C> struct tag_of { using type = C; };

template <typename T, typename E>
static void config(report& r, int cfg, int depth)
{
    std::string const base = std::string(vf::type_name<T>()) + " " + vf::engine_name<E>() + " cfg=" + std::to_string(cfg);
    if (!r.want_prefix(base.substr(0, std::min(base.size(), r.a().replay_case.size())))) return;
    auto go = [&](auto tag) {
        using C = typename decltype(tag)::type;
        explorer<T, E, C> ex{r, cfg, base, {}, {}};
        ex.make_golden();
        if (!r.a().replay) ex.bfs();
        typename explorer<T, E, C>::st init{ex.golden_obj[0], false, ""};
        ex.dfs(init, depth);
    };
    if (cfg == 0) go(tag_of<hep::plain_chkpt_with_rng<E, T>>());
    else if (cfg <= 2) go(tag_of<hep::vegas_chkpt_with_rng<E, T>>());
    else go(tag_of<hep::multi_channel_chkpt_with_rng<E, T>>());
}

template <typename T, typename E>
static void engine(report& r, int depth)
{
    for (int cfg = 0; cfg != 6; ++cfg)
    {
        config<T, E>(r, cfg, depth);
        if (r.deadline_hit()) return;
    }
}

// parts: type = part % 3, engine group = part / 3 (group 2 is used by the thorough tier only)
template <typename T>
static void for_type(report& r, int group)
{
    if (!r.want_prefix(vf::type_name<T>())) return;
    bool const th = r.a().thorough();
    int const depth = th ? 5 : 4;
#if !defined(VF_PART) || VF_PART / 3 == 0
    if (group < 0 || group == 0) { engine<T, std::mt19937>(r, depth); engine<T, std::minstd_rand>(r, depth); }
#endif
#if !defined(VF_PART) || VF_PART / 3 == 1
    if (group < 0 || group == 1) { engine<T, std::ranlux48>(r, depth); engine<T, std::knuth_b>(r, depth); }
#endif
#if !defined(VF_PART) || VF_PART / 3 == 2
    if ((group < 0 || group == 2) && (th || r.a().replay))
    {
        engine<T, std::minstd_rand0>(r, depth);
        engine<T, std::mt19937_64>(r, depth);
        engine<T, std::ranlux24_base>(r, depth);
        engine<T, std::ranlux48_base>(r, depth);
        engine<T, std::ranlux24>(r, depth);
    }
#endif
}

int main(int argc, char** argv)
{
    auto const a = vf::parse_args(argc, argv);
    report r(a);
#ifdef VF_PART
    int const type = VF_PART % 3, group = VF_PART / 3;
#else
    int const type = -1, group = -1;
#endif
#if !defined(VF_PART) || VF_PART % 3 == 0
    if (type < 0 || type == 0) for_type<float>(r, group);
#endif
#if !defined(VF_PART) || VF_PART % 3 == 1
    if (type < 0 || type == 1) for_type<double>(r, group);
#endif
#if !defined(VF_PART) || VF_PART % 3 == 2
    if (type < 0 || type == 2) for_type<long double>(r, group);
#endif
    return r.finish();
}
