// C16 — the MPI work split tiles the calls exactly.
// Exhaustive sweep of hep::discard_before / hep::discard_after and the sub_calls expression over
// (total, world, rank), a power-of-two boundary lattice up to 2^63, and (part B) the per-rank call
// counts and stream positions observed when the real mpi_* integrators run under the MPI shim.
#include "common.hpp"
#include "engines.hpp"
#include "mpienv.hpp"

#include "hep/mc.hpp"
#include "hep/mc-mpi.hpp"

#include <algorithm>

using vf::report;
typedef std::size_t sz;

// The share of rank r implied by the helper itself: the distance to the next rank's start (the last rank
// takes the rest).  Nothing here assumes *which* ranks get the extra call, only that the shares tile.
static inline sz share(sz total, sz rank, sz world)
{
    sz const b = hep::discard_before(total, rank, world);
    return (rank + 1 < world ? hep::discard_before(total, rank + 1, world) : total) - b;
}

static bool check_pair(report& r, sz total, sz world, bool all_ranks)
{
    auto fail = [&](char const* what, sz rank, sz got, sz want) {
        std::ostringstream d;
        d << what << ": total=" << total << " world=" << world << " rank=" << rank << " got=" << got
          << " expected=" << want;
        r.violate(what, "pair total=" + std::to_string(total) + " world=" + std::to_string(world), d.str());
    };
    bool ok = true;
    sz const q = total / world;
    auto one = [&](sz rank) {
        sz const b = hep::discard_before(total, rank, world);
        sz const nb = rank + 1 < world ? hep::discard_before(total, rank + 1, world) : total;
        if (rank == 0 && b != 0) { fail("before-not-contiguous", rank, b, 0); ok = false; return; }
        if (nb < b || nb > total) { fail("before-not-contiguous", rank + 1, nb, b); ok = false; return; }
        sz const c = nb - b;
        // shares differ by at most one <=> every share is floor(total/world) or that plus one
        if (c != q && c != q + 1) { fail("calls-differ-by-more-than-one", rank, c, q); ok = false; return; }
        sz const a = hep::discard_after(total, c, rank, world);
        if (b + c + a != total) { fail("rank-does-not-end-at-total", rank, b + c + a, total); ok = false; return; }
    };
    if (all_ranks) { for (sz rank = 0; rank != world && ok; ++rank) one(rank); }
    else
    {
        sz const ranks[] = {0, 1, world / 2, world - 2, world - 1};
        for (sz rank : ranks) if (rank < world && ok) one(rank);
        // the shares of all ranks sum to the total iff the starts are consistent with floor/ceil shares: check the closed
        // form of the start as well (independent of which ranks take the extra call only up to a permutation, so accept
        // both "first ranks" and "last ranks" conventions)
        for (sz rank : ranks)
        {
            if (rank >= world || !ok) continue;
            sz const b = hep::discard_before(total, rank, world), rem = total % world;
            sz const first_conv = q * rank + std::min(rank, rem);
            sz const last_conv = q * rank + (rank + rem > world ? rank + rem - world : 0);
            if (b != first_conv && b != last_conv) { fail("before-not-contiguous", rank, b, first_conv); ok = false; }
        }
    }
    return ok;
}

// ---- part B: the real integrators under the shim ------------------------------------------------

template <typename T>
struct counting_integrand
{
    T operator()(hep::mc_point<T> const& p) const
    {
        ++calls();
        if (keep_points()) points().push_back(p.point());
        return value(p.point()[0]);
    }
    static bool& keep_points() { static bool k = true; return k; }
    // a cut (exactly zero on part of the domain) and a non-finite region: the work split must not depend on what
    // the integrand returns
    static T value(T x)
    {
        sz const cell = static_cast<sz>(x * T(8));
        return cell % 4 == 1 ? T() : cell == 6 ? std::numeric_limits<T>::infinity() : T(1) + x;
    }
    static sz& calls() { static sz c = 0; return c; }
    static std::vector<std::vector<T>>& points() { static std::vector<std::vector<T>> p; return p; }
};

template <typename T>
struct counting_mc_integrand
{
    T operator()(hep::multi_channel_point<T> const& p) const
    {
        ++counting_integrand<T>::calls();
        return counting_integrand<T>::value(p.coordinates()[0]);
    }
};

template <typename T>
struct id_map
{
    T operator()(sz, std::vector<T> const& rn, std::vector<T>& coords, std::vector<sz> const&, std::vector<T>& dens, hep::multi_channel_map action) const
    {
        if (action == hep::multi_channel_map::calculate_coordinates) { coords[0] = rn[0]; return T(1); }
        for (auto& d : dens) d = T(1);
        return T(1);
    }
};

// kind 0 mpi_plain (2 numbers per call), 1 mpi_vegas (2), 2 mpi_multi_channel (1 + channel = 2), 3 the same with a
// single channel (the channel draw is made all the same).  Two iterations of `total` calls each.
template <typename T>
static void part_b(report& r, int kind, sz total, int world, sz total2 = ~sz(0))
{
    if (total2 == ~sz(0)) total2 = total;     // calls of the second iteration (a split computed once per run instead of once per iteration shows when they differ)
    char const* const names[] = {"mpi_plain", "mpi_vegas", "mpi_multi_channel", "mpi_multi_channel(1 channel)"};
    std::string const id = std::string(names[kind]) + " " + vf::type_name<T>() + " total=" + std::to_string(total)
        + " world=" + std::to_string(world) + (total2 != total ? " second-iteration=" + std::to_string(total2) : std::string());
    if (!r.want(id)) return;
    r.eval();
    std::vector<sz> per_rank(world);
    std::vector<std::uint64_t> end_pos(world);
    std::vector<sz> reported(world);
    vf::mpi_env env(world);
    env.subgroup = true;      // the integrators must take rank and size from the communicator they are given
    MPI_Comm const comm = env.comm();
    using E = vf::script_engine;
    std::vector<std::vector<std::vector<T>>> rank_points(world);
    auto outcome = env.run([&](int rank) {
        counting_integrand<T>::calls() = 0;
        counting_integrand<T>::points().clear();
        if (kind == 0)
        {
            auto chk = hep::mpi_plain(comm, hep::make_integrand<T>(counting_integrand<T>(), 2), std::vector<sz>{total, total2},
                hep::make_plain_chkpt<T, E>(), vf::never_stop_mpi());
            end_pos[rank] = chk.generator().position(); reported[rank] = chk.results().back().calls();
        }
        else if (kind == 1)
        {
            auto chk = hep::mpi_vegas(comm, hep::make_integrand<T>(counting_integrand<T>(), 2), std::vector<sz>{total, total2},
                hep::make_vegas_chkpt<T, E>(3, T(0.75), E()), vf::never_stop_mpi());
            end_pos[rank] = chk.generator().position(); reported[rank] = chk.results().back().calls();
        }
        else
        {
            auto chk = hep::mpi_multi_channel(comm, hep::make_multi_channel_integrand<T>(counting_mc_integrand<T>(), 1, id_map<T>(), 1, kind == 3 ? 1 : 2),
                std::vector<sz>{total, total2}, hep::make_multi_channel_chkpt<T, E>(T(0.015625), T(0.5), E()), vf::never_stop_mpi());
            end_pos[rank] = chk.generator().position(); reported[rank] = chk.results().back().calls();
        }
        per_rank[rank] = counting_integrand<T>::calls();
        rank_points[rank] = counting_integrand<T>::points();
    });
    if (!outcome.ok)
    {
        r.violate("mpi-run-failed", id, outcome.what);
        return;
    }
    sz sum = 0, mn = ~sz(0), mx = 0;
    for (int k = 0; k != world; ++k)
    {
        sum += per_rank[k];
        if (total2 == total) { mn = std::min(mn, per_rank[k] / 2); mx = std::max(mx, (per_rank[k] + 1) / 2); }   // per iteration
        else { mn = mx = 0; }
        if (per_rank[k] != share(total, k, world) + share(total2, k, world))
            r.violate("evaluations-differ-from-the-share-implied-by-discard_before", id, id + ": rank " + std::to_string(k) + " evaluated "
                + std::to_string(per_rank[k]) + " points in two iterations, discard_before places its share at [" + std::to_string(hep::discard_before(total, k, world))
                + ", +" + std::to_string(share(total, k, world)) + ")");
        if (end_pos[k] != 2 * (total + total2))
            r.violate("rank-does-not-end-at-total", id, id + ": rank " + std::to_string(k) + " ends at stream position "
                + std::to_string(end_pos[k]) + " instead of " + std::to_string(2 * (total + total2)) + " after two iterations");
        if (reported[k] != total2)
            r.violate("calls-do-not-sum-to-total", id, id + ": reported calls " + std::to_string(reported[k]));
    }
    if (sum != total + total2) r.violate("calls-do-not-sum-to-total", id, id + ": sum of per-rank evaluations " + std::to_string(sum));
    if (mx - mn > 1) r.violate("calls-differ-by-more-than-one", id, id + ": max-min=" + std::to_string(mx - mn));
    if (kind == 0 && sum == total + total2)
    {
        // the shares are placed without gap or overlap: in rank order the ranks see exactly the serial point sequence
        counting_integrand<T>::points().clear();
        vf::script_engine gen;
        (void) hep::plain_iteration(hep::make_integrand<T>(counting_integrand<T>(), 2), total, gen);
        (void) hep::plain_iteration(hep::make_integrand<T>(counting_integrand<T>(), 2), total2, gen);
        auto const serial = counting_integrand<T>::points();
        sz pos = 0;
        // rank k's log holds its share of the first iteration followed by its share of the second one
        for (int iter = 0; iter != 2; ++iter)
        for (int k = 0; k != world; ++k)
            for (sz j = 0; j != share(iter == 0 ? total : total2, k, world); ++j)
            {
                auto const& pt = rank_points[k][iter * share(total, k, world) + j];
                if (pos >= serial.size() || !vf::same_bits(pt[0], serial[pos][0]) || !vf::same_bits(pt[1], serial[pos][1]))
                {
                    r.violate("shares-not-placed-contiguously", id, id + ": point " + std::to_string(pos) + " in rank order (rank " + std::to_string(k) + ") is ("
                        + vf::dec(pt[0]) + ", " + vf::dec(pt[1]) + "), the serial stream has (" + (pos < serial.size() ? vf::dec(serial[pos][0]) + ", " + vf::dec(serial[pos][1]) : std::string("nothing")) + ")");
                    k = world - 1; iter = 1; break;
                }
                ++pos;
            }
    }
    r.validated();
    if (total % world) r.distinct(vf::hash_str(id));
}

// a total beyond 2^31 through the real mpi_plain (thorough tier: 2^31 + 3 evaluations per execution): the share each
// rank evaluates is computed inside the integrators, in whatever integer type they use
static void part_b_large(report& r, sz total, int world)
{
    std::string const id = "mpi_plain float total=" + std::to_string(total) + " world=" + std::to_string(world) + " (large)";
    if (!r.want(id)) return;
    r.eval();
    using T = float;
    using E = vf::script_engine;
    std::vector<sz> per_rank(world), reported(world);
    std::vector<std::uint64_t> end_pos(world);
    counting_integrand<T>::keep_points() = false;
    vf::mpi_env env(world);
    auto outcome = env.run([&](int rank) {
        counting_integrand<T>::calls() = 0;
        auto chk = hep::mpi_plain(MPI_COMM_WORLD, hep::make_integrand<T>(counting_integrand<T>(), 1), std::vector<sz>{total}, hep::make_plain_chkpt<T, E>(), vf::never_stop_mpi());
        per_rank[rank] = counting_integrand<T>::calls(); reported[rank] = chk.results().back().calls(); end_pos[rank] = chk.generator().position();
    });
    counting_integrand<T>::keep_points() = true;
    if (!outcome.ok) { r.violate("mpi-run-failed", id, outcome.what); return; }
    sz sum = 0;
    for (int k = 0; k != world; ++k)
    {
        sum += per_rank[k];
        if (per_rank[k] != share(total, k, world))
            r.violate("evaluations-differ-from-the-share-implied-by-discard_before", id, id + ": rank " + std::to_string(k) + " evaluated " + std::to_string(per_rank[k]) + " points, its share is " + std::to_string(share(total, k, world)));
        if (end_pos[k] != total) r.violate("rank-does-not-end-at-total", id, id + ": rank " + std::to_string(k) + " ends at stream position " + std::to_string(end_pos[k]));
        if (reported[k] != total) r.violate("calls-do-not-sum-to-total", id, id + ": reported calls " + std::to_string(reported[k]));
    }
    if (sum != total) r.violate("calls-do-not-sum-to-total", id, id + ": the ranks evaluated " + std::to_string(sum) + " points");
    r.validated();
    r.distinct(vf::hash_str(id));
}

int main(int argc, char** argv)
{
    auto const a = vf::parse_args(argc, argv);
    report r(a);

    sz const max_total = a.thorough() ? 100000 : 4096;
    sz const max_world = a.thorough() ? 256 : 128;

    // part A1: exhaustive sweep, sharded over world
    if (r.want_prefix("pair "))
    {
        if (a.replay)
        {
            sz total = 0, world = 0;
            if (std::sscanf(a.replay_case.c_str(), "pair total=%zu world=%zu", &total, &world) == 2)
            {
                r.eval();
                check_pair(r, total, world, world <= 4096);
            }
        }
        else
        {
            for (sz world = 1 + a.shard; world <= max_world; world += a.nshards)
            {
                for (sz total = 0; total <= max_total; ++total)
                {
                    check_pair(r, total, world, true);
                    r.eval(world);
                    if (total % world) r.distinct((std::uint64_t(world) << 40) ^ total);
                }
                if (r.deadline_hit()) break;
            }
            if (a.shard == 0)
            {
                r.set_counter("sweep_max_total", max_total);
                r.set_counter("sweep_max_world", max_world);
            }

            // part A2: boundary lattice
            if (a.shard == 0)
            {
                std::vector<sz> worlds;
                for (sz w = 1; w <= 65; ++w) worlds.push_back(w);
                for (int j = 7; j <= 31; ++j)
                {
                    worlds.push_back((sz(1) << j) - 1);
                    worlds.push_back(sz(1) << j);
                    if (j < 31) worlds.push_back((sz(1) << j) + 1);
                }
                for (int k = 0; k <= 63; ++k)
                {
                    for (int delta = -3; delta <= 3; ++delta)
                    {
                        sz const base = sz(1) << k;
                        if (delta < 0 && base < sz(-delta)) continue;
                        sz const total = base + delta;  // wraps only for k = 63, delta > 0: skip
                        if (k == 63 && delta > 0 && false) continue;
                        for (sz w : worlds)
                        {
                            check_pair(r, total, w, w <= 65);
                            r.eval(w <= 65 ? w : 5);
                            r.count("lattice_pairs");
                            if (total % w) r.distinct((std::uint64_t(w) << 40) ^ total ^ 0x5555000000000000ULL);
                        }
                    }
                }
                // near the top of the range
                for (sz total = ~sz(0); total > ~sz(0) - 4; --total)
                    for (sz w : worlds) { check_pair(r, total, w, w <= 65); r.eval(); r.count("lattice_pairs"); }
            }
        }
    }

    // part B: real integrators
    if (a.shard == 0 && r.want_prefix("mpi_"))
    {
        std::vector<sz> const totals = {0, 1, 2, 3, 5, 7, 8, 10, 31, 33, 64, 100};
        int const maxw = a.thorough() ? 33 : 12;
        vf::script_engine::table().clear();
        for (int kind = 0; kind != 4; ++kind)
        for (int w = 1; w <= maxw; ++w)
            for (sz t : totals)
            {
                part_b<double>(r, kind, t, w);
                part_b<double>(r, kind, t, w, t + 1);                    // iterations of different sizes: another remainder per iteration
                if (w > 2) part_b<double>(r, kind, t + 2, w, t);
                if (a.thorough()) { part_b<float>(r, kind, t, w); part_b<long double>(r, kind, t, w); }
            }
        if (a.thorough() || a.replay) part_b_large(r, (sz(1) << 31) + 3, 4);
    }

    if (a.shard == 0)
    {
        auto show = [&](sz total, sz world) {
            std::ostringstream o;
            o << "pair total=" << total << " world=" << world << ": (before,calls,after) per rank";
            for (sz k = 0; k != world; ++k)
            {
                sz const c = share(total, k, world);
                o << " (" << hep::discard_before(total, k, world) << "," << c << ","
                  << hep::discard_after(total, c, k, world) << ")";
            }
            r.sample(o.str());
        };
        show(10, 4);
        show(3, 5);
        show((sz(1) << 63) + 3, 3);
    }
    return r.finish();
}
