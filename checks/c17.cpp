// C17 — the integrand and the channel map are called under the documented protocol.
// Every sequence of 3 calls over a per-call alphabet (extreme canonical numbers x integrand behaviour
// {returns 0, 2, NaN} x {requests the weight itself or not}) through PLAIN, VEGAS (uniform and
// non-uniform grid) and MULTI-CHANNEL (five weight vectors with disabled channels); the instrumented
// integrand and map write an event log on which the protocol is checked.  Built with ASan/UBSan.
#include "common.hpp"
#include "engines.hpp"

#include "hep/mc.hpp"

#include <cmath>

using vf::report;
typedef std::size_t sz;

enum ev_kind { ev_coords, ev_integrand, ev_dens };

template <typename T>
struct event
{
    ev_kind kind;
    sz channel = 0;
    std::vector<T> rn, coords;
    void const* rn_addr = nullptr;
    void const* coords_addr = nullptr;
    void const* dens_addr = nullptr;
    std::vector<sz> enabled;
    std::vector<sz> bin;
    bool coords_intact = true;     // dens event: coordinates still hold what the map wrote
    bool dens_intact = true;       // dens event: the density buffer still holds what the map wrote with the coordinates
    bool same_map = true;          // dens event: asked of the map object (or a later copy of it) that computed this point's coordinates
    T value = T();                 // integrand event: returned value
    bool touched = false;          // integrand event: requested the weight itself
};

template <typename T>
struct world
{
    std::vector<event<T>> log;
    std::vector<int> behaviour;    // per call: 0 returns 0, 1 returns 2, 2 returns NaN
    std::vector<int> touch;        // per call
    sz calls = 0;
    std::vector<T> last_coords;    // what the map wrote last
    std::vector<T> last_dens;
    long latest_coords_pos = -2;   // log position of the most recent coordinates request
};
template <typename T> static world<T>& W() { static world<T> w; return w; }

template <typename T>
static T behave(int b) { return b == 0 ? T() : b == 1 ? T(2) : std::numeric_limits<T>::quiet_NaN(); }

template <typename T>
struct fn
{
    T operator()(hep::mc_point<T> const& p) const
    {
        auto& w = W<T>();
        sz const k = w.calls++;
        event<T> e; e.kind = ev_integrand; e.rn = p.point(); e.touched = w.touch[k % w.touch.size()] != 0;
        if (e.touched) (void) p.weight();
        e.value = behave<T>(w.behaviour[k % w.behaviour.size()]);
        w.log.push_back(e);
        return e.value;
    }
    T operator()(hep::vegas_point<T> const& p) const
    {
        auto& w = W<T>();
        sz const k = w.calls++;
        event<T> e; e.kind = ev_integrand; e.rn = p.point(); e.bin = p.bin(); e.touched = w.touch[k % w.touch.size()] != 0;
        if (e.touched) (void) p.weight();
        e.value = behave<T>(w.behaviour[k % w.behaviour.size()]);
        w.log.push_back(e);
        return e.value;
    }
    T mc(hep::multi_channel_point<T> const& p, hep::projector<T>* proj) const
    {
        auto& w = W<T>();
        sz const k = w.calls++;
        event<T> e; e.kind = ev_integrand; e.channel = p.channel(); e.rn = p.point(); e.coords = p.coordinates();
        e.rn_addr = &p.point(); e.coords_addr = &p.coordinates();
        e.touched = w.touch[k % w.touch.size()] != 0;
        // the event is logged before the weight is requested so that the log shows the true order
        sz const pos = w.log.size();
        w.log.push_back(e);
        T const v = behave<T>(w.behaviour[k % w.behaviour.size()]);
        // with distributions the integrand requests the weight through the projector
        if (e.touched) { if (proj) proj->add(0, p.coordinates()[0], v); else (void) p.weight(); }
        w.log[pos].value = v;
        return v;
    }
    T operator()(hep::multi_channel_point<T> const& p) const { return mc(p, nullptr); }
    T operator()(hep::multi_channel_point<T> const& p, hep::projector<T>& proj) const { return mc(p, &proj); }
    T operator()(hep::mc_point<T> const& p, hep::projector<T>& proj) const { (void) proj; return (*this)(p); }
};

template <typename T>
struct map_fn
{
    // state of the map's own (a map may cache between its two requests): the log position of the last
    // coordinates request this object served; copies made afterwards inherit it
    mutable long served_coords_pos = -1;

    T operator()(sz channel, std::vector<T> const& rn, std::vector<T>& coords, std::vector<sz> const& enabled,
        std::vector<T>& dens, hep::multi_channel_map action) const
    {
        auto& w = W<T>();
        event<T> e;
        e.channel = channel; e.rn = rn; e.rn_addr = &rn; e.coords_addr = &coords; e.dens_addr = &dens; e.enabled = enabled;
        if (action == hep::multi_channel_map::calculate_coordinates)
        {
            e.kind = ev_coords;
            for (sz i = 0; i != coords.size(); ++i) coords[i] = rn[i] * T(0.5) + T(0.25) * T(channel % 2);
            w.last_coords = coords;
            served_coords_pos = w.latest_coords_pos = static_cast<long>(w.log.size());
            // the map may fill the densities already now ("can be calculated at this time point")
            // (slots of disabled channels are marked with NaN: nobody may rely on them, and nobody may clean them up)
            for (sz i = 0; i != dens.size(); ++i)
                dens[i] = std::find(enabled.begin(), enabled.end(), i) == enabled.end() ? std::numeric_limits<T>::quiet_NaN() : T(1) + T(i) / T(4);
            w.last_dens = dens;
            e.coords = coords;
            w.log.push_back(e);
            return T(1);
        }
        e.kind = ev_dens;
        e.coords = coords;
        e.coords_intact = coords.size() == w.last_coords.size();
        for (sz i = 0; e.coords_intact && i != coords.size(); ++i) e.coords_intact = vf::same_bits(coords[i], w.last_coords[i]);
        e.dens_intact = dens.size() == w.last_dens.size();
        for (sz i = 0; e.dens_intact && i != dens.size(); ++i) e.dens_intact = vf::same_bits(dens[i], w.last_dens[i]);
        e.same_map = served_coords_pos == w.latest_coords_pos;
        // the densities stay as they were filled with the coordinates
        w.log.push_back(e);
        return T(2);
    }
};

// per-call alphabets of raw engine outputs
template <typename T>
static std::vector<std::uint64_t> extremes()
{
    // the last one is the largest raw output of the engine (the canonical number is then clamped below one)
    return {0, std::uint64_t(1) << 62, ~std::uint64_t(0)};
}

struct cfg { int kind; int variant; };   // kind 0 plain, 1 vegas (variant 0 uniform, 1 non-uniform), 2 mc (variant = weight vector)

template <typename T>
static void check_log(report& r, cfg const& c, sz n, sz dims, hep::vegas_pdf<T> const* pdf, std::vector<T> const& weights, std::string const& id)
{
    auto const& log = W<T>().log;
    auto fail = [&](std::string const& key, std::string const& msg) { r.violate(key, id, id + ": " + msg); };
    sz integrand_calls = 0;
    for (auto const& e : log) integrand_calls += e.kind == ev_integrand;
    if (integrand_calls != n) { fail("integrand-not-called-once-per-point", std::to_string(integrand_calls) + " integrand calls for " + std::to_string(n) + " points"); return; }
    if (c.kind == 0 || c.kind == 1)
    {
        for (auto const& e : log)
        {
            if (e.kind != ev_integrand) { fail("unexpected-event", "map event in a PLAIN/VEGAS run"); return; }
            if (e.rn.size() != dims) { fail("wrong-dimension", "point of dimension " + std::to_string(e.rn.size())); return; }
            for (sz k = 0; k != dims; ++k)
            {
                T const x = e.rn[k];
                if (c.kind == 0 && !(x >= T(0) && x < T(1))) { fail("coordinate-outside-unit-interval", "PLAIN coordinate " + vf::dec(x) + " not in [0,1)"); return; }
                if (c.kind == 1)
                {
                    if (!(x >= T(0) && x <= T(1))) { fail("coordinate-outside-unit-interval", "VEGAS coordinate " + vf::dec(x) + " not in [0,1]"); return; }
                    if (e.bin.size() != dims || e.bin[k] >= pdf->bins()) { fail("bin-index-out-of-range", "bin index " + (e.bin.size() == dims ? std::to_string(e.bin[k]) : std::string("?"))); return; }
                    if (!(x >= pdf->bin_left(k, e.bin[k]) && x <= pdf->bin_left(k, e.bin[k] + 1)))
                    { fail("point-outside-its-bin", "coordinate " + vf::dec(x) + " reported in bin " + std::to_string(e.bin[k])); return; }
                }
            }
        }
        return;
    }
    // multi-channel: coords -> integrand -> dens* per point
    std::vector<sz> enabled;
    for (sz i = 0; i != weights.size(); ++i) if (weights[i] != T()) enabled.push_back(i);
    sz i = 0;
    for (sz point = 0; point != n; ++point)
    {
        if (i >= log.size() || log[i].kind != ev_coords) { fail("map-not-asked-for-coordinates-first", "point " + std::to_string(point) + ": expected a coordinates request"); return; }
        auto const& ce = log[i++];
        if (std::find(enabled.begin(), enabled.end(), ce.channel) == enabled.end()) { fail("disabled-channel-used", "coordinates requested for channel " + std::to_string(ce.channel)); return; }
        if (ce.enabled != enabled) { fail("enabled-list-wrong", "enabled channels passed: " + vf::join(ce.enabled) + ", expected " + vf::join(enabled)); return; }
        if (ce.rn.size() != dims) { fail("wrong-dimension", "random numbers of dimension " + std::to_string(ce.rn.size())); return; }
        for (T x : ce.rn) if (!(x >= T(0) && x < T(1))) { fail("coordinate-outside-unit-interval", "random number " + vf::dec(x) + " handed to the map is not in [0,1)"); return; }
        if (i >= log.size() || log[i].kind != ev_integrand) { fail("integrand-not-called-once-per-point", "point " + std::to_string(point) + ": no integrand call after the coordinates"); return; }
        auto const& ie = log[i++];
        if (ie.channel != ce.channel) { fail("channel-changed", "integrand sees channel " + std::to_string(ie.channel) + ", map was asked for " + std::to_string(ce.channel)); return; }
        for (sz k = 0; k != dims; ++k)
            if (!vf::same_bits(ie.rn[k], ce.rn[k]) || !vf::same_bits(ie.coords[k], ce.coords[k])) { fail("buffers-changed", "integrand sees different random numbers / coordinates than the map produced"); return; }
        if (ie.rn_addr != ce.rn_addr || ie.coords_addr != ce.coords_addr) { fail("buffer-identity", "integrand sees other buffers than the map was given"); return; }
        bool const allowed = ie.touched || ie.value != T();
        while (i < log.size() && log[i].kind == ev_dens)
        {
            auto const& de = log[i++];
            if (!allowed) { fail("densities-requested-for-zero-value", "point " + std::to_string(point) + ": densities requested although the integrand returned 0 and did not ask for the weight"); return; }
            if (de.channel != ce.channel) { fail("channel-changed", "densities requested for channel " + std::to_string(de.channel) + ", coordinates for " + std::to_string(ce.channel)); return; }
            if (de.rn_addr != ce.rn_addr || de.coords_addr != ce.coords_addr || de.dens_addr != ce.dens_addr) { fail("buffer-identity", "densities requested with other buffers than the coordinates"); return; }
            for (sz k = 0; k != dims; ++k) if (!vf::same_bits(de.rn[k], ce.rn[k])) { fail("buffers-changed", "random numbers changed between the two map calls"); return; }
            if (!de.coords_intact) { fail("buffers-changed", "coordinates changed between the two map calls"); return; }
            if (!de.dens_intact) { fail("buffers-changed", "the density buffer changed between the two map calls"); return; }
            if (!de.same_map) { fail("densities-asked-of-another-map-object", "the densities were requested from a map object that had not computed this point's coordinates (a map may keep state between its two requests)"); return; }
            if (de.enabled != enabled) { fail("enabled-list-wrong", "enabled channels passed with the densities request: " + vf::join(de.enabled)); return; }
        }
    }
    if (i != log.size()) fail("unexpected-event", "events after the last point");
}

template <typename T>
static void enumerate(report& r)
{
    std::string const tn = vf::type_name<T>();
    auto const ex = extremes<T>();
    std::vector<cfg> cfgs = {{0, 0}, {1, 0}, {1, 1}, {2, 0}, {2, 1}, {2, 2}, {2, 3}, {2, 4}, {2, 5}, {3, 0}, {3, 1}, {3, 4}};   // kind 3: multi-channel with a distribution
    // (the last one: a weight that is tiny but not zero - the channel is enabled and is selected for the canonical number 0)
    std::vector<std::vector<T>> const wv = {{T(1), T(1), T(1)}, {T(0), T(1), T(1)}, {T(1), T(0), T(1)}, {T(1), T(1), T(0)}, {T(0), T(0), T(1)},
        {std::numeric_limits<T>::epsilon() / T(8), T(1), T(1)}};
    for (auto const& c : cfgs)
    {
        sz const n = (r.a().thorough() && c.kind <= 1) ? 4 : 3;
        std::string const base = tn + " kind=" + std::to_string(c.kind) + " variant=" + std::to_string(c.variant);
        if (!r.want_prefix(base.substr(0, std::min(base.size(), r.a().replay_case.size())))) continue;
        sz const dims = 1;
        // per-call alphabet: raw numbers (coordinate; for multi-channel also the channel draw) x behaviour x touch
        std::vector<std::vector<std::uint64_t>> us;
        if (c.kind >= 2) { for (auto a : {ex[0], ex[2]}) for (auto b : ex) us.push_back({a, b}); }
        else for (auto a : ex) us.push_back({a});
        sz const alpha = us.size() * 6;
        std::vector<sz> idx(n, 0);
        hep::vegas_pdf<T> pdf(dims, 3);
        if (c.variant == 1) { pdf.set_bin_left(0, 1, T(0.125)); pdf.set_bin_left(0, 2, T(0.5)); }
        std::vector<T> weights;
        if (c.kind >= 2) { weights = wv[c.variant]; T s = T(); for (T v : weights) s += v; for (T& v : weights) v /= s; }
        for (;;)
        {
            std::string const id = base + " seq=" + vf::join(idx);
            if (r.want(id))
            {
                r.eval();
                auto& w = W<T>();
                w.log.clear(); w.behaviour.clear(); w.touch.clear(); w.calls = 0; w.latest_coords_pos = -2;
                auto& table = vf::script_engine::table();
                table.clear();
                for (sz k = 0; k != n; ++k)
                {
                    sz const a = idx[k];
                    for (auto x : us[a / 6]) table.push_back(x);
                    w.behaviour.push_back(int((a % 6) / 2));
                    w.touch.push_back(int(a % 2));
                }
                vf::script_engine gen;
                if (c.kind == 0) (void) hep::plain_iteration(hep::make_integrand<T>(fn<T>(), dims), n, gen);
                else if (c.kind == 1) (void) hep::vegas_iteration(hep::make_integrand<T>(fn<T>(), dims), n, pdf, gen);
                else if (c.kind == 2) (void) hep::multi_channel_iteration(hep::make_multi_channel_integrand<T>(fn<T>(), dims, map_fn<T>(), dims, 3), n, weights, gen);
                else (void) hep::multi_channel_iteration(hep::make_multi_channel_integrand<T>(fn<T>(), dims, map_fn<T>(), dims, 3,
                    hep::make_dist_params<T>(2, T(0), T(1), "d")), n, weights, gen);
                check_log<T>(r, c, n, dims, &pdf, weights, id);
                r.distinct(vf::hash_str(id));
                r.outcome("event log shapes", [&]() { std::string s; for (auto const& e : w.log) s += char('a' + e.kind); return s; }());
                if (r.wants_sample() && c.kind == 2 && c.variant == 1 && idx[0] == 7 && idx[1] == 20) r.sample(id);
            }
            sz k = 0;
            while (k != n && ++idx[k] == alpha) { idx[k] = 0; ++k; }
            if (k == n) break;
        }
        if (r.deadline_hit()) return;
    }
    vf::script_engine::table().clear();
}

int main(int argc, char** argv)
{
    auto const a = vf::parse_args(argc, argv);
    report r(a);
#if VF_PART_ENABLED(0)
    if ((a.nshards == 1 || a.shard % 3 == 0) && r.want_prefix("float")) enumerate<float>(r);
#endif
#if VF_PART_ENABLED(1)
    if ((a.nshards == 1 || a.shard % 3 == 1) && r.want_prefix("double")) enumerate<double>(r);
#endif
#if VF_PART_ENABLED(2)
    if ((a.nshards == 1 || a.shard % 3 == 2) && r.want_prefix("long double")) enumerate<long double>(r);
#endif
    return r.finish();
}
