// C18 — a killed run always leaves a complete checkpoint file.
// The run writes its checkpoint through the built-in callback into a scratch directory while every
// file system call on that directory is logged (harness/fslog.hpp).  Crash states = every position
// in the operation log x every byte prefix of the write in flight (kill model: completed calls
// persist).  Oracle: if the checkpoint file exists in a crash state it must be exactly the checkpoint
// of the previous iteration or the new one, and resuming from it must end in the uninterrupted run's
// final text.  The simulated crash states are validated against real kills (forked child _exit()ing
// at that point) on the real directory.
#include "common.hpp"
#include "engines.hpp"
#include "fslog.hpp"
#include "mcmodel.hpp"

#include "mpienv.hpp"

#include "hep/mc.hpp"
#include "hep/mc-mpi.hpp"

#include <cmath>
#include <dirent.h>
#include <fstream>
#include <set>
#include <sys/wait.h>

using vf::report;
typedef std::size_t sz;

static std::string g_dir, g_chk;

template <typename C>
static std::string text_of(C const& c) { std::ostringstream o; c.serialize(o); return o.str(); }

template <typename T> struct pf { T operator()(hep::mc_point<T> const& p) const { T v = T(1); for (T x : p.point()) v *= T(0.5) + x; return v; } };
template <typename T> struct mf { T operator()(hep::multi_channel_point<T> const& p) const { return T(0.3L) + p.coordinates()[0]; } };

static std::vector<sz> const g_calls = {20, 30, 25};

// kind 0 PLAIN, 1 VEGAS 128 bins x 4 dimensions, 2 MULTI-CHANNEL 30 channels
template <typename T, int K> struct kit;
template <typename T> struct kit<T, 0>
{
    using E = std::mt19937;
    using C = hep::plain_chkpt_with_rng<E, T>;
    using Base = hep::plain_chkpt<T>;
    static C fresh() { return hep::make_plain_chkpt<T, E>(E(3)); }
    template <typename CB> static C run(std::vector<sz> const& calls, C const& c, CB cb) { return hep::plain(hep::make_integrand<T>(pf<T>(), 2), calls, c, cb); }
    static C load(std::istream& in) { return hep::make_plain_chkpt<T, E>(in); }
};
template <typename T> struct kit<T, 1>
{
    using E = std::mt19937;
    using C = hep::vegas_chkpt_with_rng<E, T>;
    using Base = hep::vegas_chkpt<T>;
    static C fresh() { return hep::make_vegas_chkpt<T, E>(128, T(1.75), E(3)); }
    template <typename CB> static C run(std::vector<sz> const& calls, C const& c, CB cb) { return hep::vegas(hep::make_integrand<T>(pf<T>(), 4), calls, c, cb); }
    static C load(std::istream& in) { return hep::make_vegas_chkpt<T, E>(in); }
};
template <typename T> struct kit<T, 2>
{
    using E = std::mt19937;
    using C = hep::multi_channel_chkpt_with_rng<E, T>;
    using Base = hep::multi_channel_chkpt<T>;
    static vf::pl_map<T> map() { vf::pl_map<T> m; for (sz i = 0; i != 30; ++i) m.split.push_back(T(i + 1) / T(31)); return m; }
    static C fresh() { return hep::make_multi_channel_chkpt<T, E>(T(0.001L), T(0.375), E(3)); }
    template <typename CB> static C run(std::vector<sz> const& calls, C const& c, CB cb) { return hep::multi_channel(hep::make_multi_channel_integrand<T>(mf<T>(), 1, map(), 1, 30), calls, c, cb); }
    static C load(std::istream& in) { return hep::make_multi_channel_chkpt<T, E>(in); }
};

// marks the operation log position at every callback invocation (= iteration boundary)
static std::vector<sz> g_marks;
template <typename C, typename Inner = hep::callback<C>>
struct mark_cb
{
    Inner inner;
    bool operator()(C const& c) { bool const more = inner(c); g_marks.push_back(vf::fs().log.size()); return more; }
};

static std::map<std::string, std::string> list_dir()
{
    std::map<std::string, std::string> out;
    bool const was = vf::fs().active;
    vf::fs().active = false;
    if (DIR* d = opendir(g_dir.c_str()))
    {
        while (dirent* e = readdir(d))
        {
            std::string const n = e->d_name;
            if (n == "." || n == "..") continue;
            std::ifstream in(g_dir + "/" + n);
            std::stringstream s; s << in.rdbuf();
            out[g_dir + "/" + n] = s.str();
        }
        closedir(d);
    }
    vf::fs().active = was;
    return out;
}

static void clear_dir()
{
    bool const was = vf::fs().active;
    vf::fs().active = false;
    for (auto const& f : list_dir()) ::unlink(f.first.c_str());
    vf::fs().active = was;
}

static void put_file(std::string const& path, std::string const& content)
{
    bool const was = vf::fs().active;
    vf::fs().active = false;
    std::ofstream o(path); o << content; o.close();
    vf::fs().active = was;
}

static std::string describe_op(vf::fs_op const& op)
{
    std::string const p = (op.failed ? "failing: " : "") + op.path.substr(op.path.rfind('/') + 1);
    switch (op.kind)
    {
    case vf::fs_open: return std::string("open(") + p + (op.trunc ? ", truncate)" : ")");
    case vf::fs_write: return "write(" + p + ", " + std::to_string(op.data.size()) + " bytes)";
    case vf::fs_close: return "close(" + p + ")";
    case vf::fs_rename: return "rename(" + p + " -> " + op.path2.substr(op.path2.rfind('/') + 1) + ")";
    case vf::fs_unlink: return "unlink(" + p + ")";
    case vf::fs_truncate: return "truncate(" + p + ", " + std::to_string(op.length) + ")";
    default: return "sync(" + p + ")";
    }
}

// ---- family G: several MPI processes share the directory -------------------------------------------------------------
// The ranks run under the MPI environment model (harness/mpienv.hpp) with the built-in mpi_callback in a writing mode; the
// file system operations of every rank are logged per callback invocation.  Between two collectives the ranks are not
// ordered, so the operations the ranks issue in the callback of the same iteration may interleave in any way: every
// interleaving is enumerated (depth-first over the positions in the per-rank sequences, states hashed) on an inode-level
// model of the directory (a descriptor keeps writing into the file it opened, whatever that file is called by then), and
// in every state reached - the run can be killed there - the checkpoint file must be absent or a complete checkpoint.
struct ifs_state
{
    std::map<std::string, int> names;                 // directory: name -> inode
    std::vector<std::string> inodes;
    std::vector<std::map<std::string, std::pair<int, long>>> handles;   // per rank: path it opened -> (inode, position)
    std::vector<sz> pos;                              // per rank: next operation
    std::string key() const
    {
        std::string k;
        for (auto p : pos) k += std::to_string(p) + ",";
        for (auto const& n : names) k += n.first + ">" + std::to_string(n.second) + ";";
        for (auto const& h : handles) { k += "|"; for (auto const& e : h) k += e.first + ">" + std::to_string(e.second.first) + "@" + std::to_string(e.second.second) + ";"; }
        for (auto const& i : inodes) k += "#" + std::to_string(vf::hash_str(i)) + ":" + std::to_string(i.size());
        return k;
    }
};

static void ifs_apply(ifs_state& st, int rank, vf::fs_op const& op, sz bytes /* of a write; npos = all */)
{
    if (op.failed) return;
    auto& h = st.handles[rank];
    switch (op.kind)
    {
    case vf::fs_open:
    {
        auto n = st.names.find(op.path);
        int ino;
        if (n == st.names.end()) { ino = int(st.inodes.size()); st.inodes.push_back(""); st.names[op.path] = ino; }
        else { ino = n->second; if (op.trunc) st.inodes[ino].clear(); }
        h[op.path] = std::make_pair(ino, 0L);
        break;
    }
    case vf::fs_write:
    {
        auto e = h.find(op.path);
        if (e == h.end()) break;
        std::string const d = bytes == std::string::npos ? op.data : op.data.substr(0, bytes);
        std::string& f = st.inodes[e->second.first];
        sz const at = op.offset < 0 ? f.size() : sz(e->second.second);
        if (f.size() < at + d.size()) f.resize(at + d.size(), '\0');
        f.replace(at, d.size(), d);
        e->second.second = long(at + d.size());
        break;
    }
    case vf::fs_close: h.erase(op.path); break;
    case vf::fs_rename:
    {
        auto n = st.names.find(op.path);
        if (n == st.names.end() || op.path == op.path2) break;     // (a rename whose source is gone fails and changes nothing)
        int const ino = n->second; st.names.erase(n); st.names[op.path2] = ino;
        break;
    }
    case vf::fs_unlink: st.names.erase(op.path); break;
    case vf::fs_truncate: { auto n = st.names.find(op.path); if (n != st.names.end()) st.inodes[n->second].resize(op.length); break; }
    default: break;
    }
}

template <typename C>
struct mpi_mark_cb
{
    hep::mpi_callback<C> inner;
    std::vector<sz>* marks;
    bool operator()(MPI_Comm comm, C const& c) { bool const more = inner(comm, c); marks->push_back(vf::fs().log.size()); return more; }
};

template <typename T, int K> struct mpi_kit;
template <typename T> struct mpi_kit<T, 0>
{
    template <typename CB> static typename kit<T, 0>::C run(std::vector<sz> const& calls, CB cb) { return hep::mpi_plain(MPI_COMM_WORLD, hep::make_integrand<T>(pf<T>(), 2), calls, kit<T, 0>::fresh(), cb); }
};
template <typename T> struct mpi_kit<T, 1>
{
    template <typename CB> static typename kit<T, 1>::C run(std::vector<sz> const& calls, CB cb) { return hep::mpi_vegas(MPI_COMM_WORLD, hep::make_integrand<T>(pf<T>(), 4), calls, kit<T, 1>::fresh(), cb); }
};
template <typename T> struct mpi_kit<T, 2>
{
    template <typename CB> static typename kit<T, 2>::C run(std::vector<sz> const& calls, CB cb) { return hep::mpi_multi_channel(MPI_COMM_WORLD, hep::make_multi_channel_integrand<T>(mf<T>(), 1, kit<T, 2>::map(), 1, 30), calls, kit<T, 2>::fresh(), cb); }
};

template <typename T, int K>
static void mpi_scenario(report& r, int mode, int world, bool preexisting)
{
    using C = typename kit<T, K>::C;
    std::string const base = std::string(vf::type_name<T>()) + " G kind=" + std::to_string(K) + " mode=" + std::to_string(mode) + " world=" + std::to_string(world) + " preexisting=" + std::to_string(preexisting);
    if (!r.want(base)) return;
    r.eval();
    hep::callback_mode const cm = mode == 0 ? hep::callback_mode::silent_and_write_chkpt : hep::callback_mode::verbose_and_write_chkpt;
    std::vector<std::vector<vf::fs_op>> logs(world);
    std::vector<std::vector<sz>> marks(world);
    std::vector<std::string> texts(world);
    clear_dir();
    vf::mpi_env env(world);
    auto const out = env.run([&](int rank) {
        // (a rank is re-executed for every collective; only the execution that runs to the end leaves its log)
        clear_dir();
        vf::fs() = vf::fs_state();
        vf::fs().dir = g_dir; vf::fs().active = true;
        std::vector<sz> m;
        struct off { ~off() { vf::fs().active = false; } } guard;
        auto const c = mpi_kit<T, K>::run(g_calls, mpi_mark_cb<C>{hep::mpi_callback<C>(cm, g_chk), &m});
        vf::fs().active = false;
        logs[rank] = vf::fs().log; marks[rank] = m; texts[rank] = text_of(c);
    });
    clear_dir();
    if (!out.ok) { r.violate("mpi-run-failed", base, base + ": " + out.what); return; }
    if (vf::fs().offset_mismatch) { std::fprintf(stderr, "short or positional write: not modelled\n"); std::exit(2); }
    for (int k = 0; k != world; ++k) if (marks[k].size() != g_calls.size()) { r.violate("mpi-run-failed", base, base + ": rank " + std::to_string(k) + " invoked the callback " + std::to_string(marks[k].size()) + " times"); return; }
    // complete checkpoints: what rank 0 returns after 0..n iterations (all ranks return the same, C04/C19)
    std::vector<std::string> golden;
    {
        vf::mpi_env e1(world);
        for (sz n = 0; n <= g_calls.size(); ++n)     // (n = 0: a run without iterations; a fresh VEGAS checkpoint has no dimension yet and cannot be written)
        {
            std::string t;
            std::vector<sz> const part(g_calls.begin(), g_calls.begin() + n);
            auto const o = e1.run([&](int rank) { auto const c = mpi_kit<T, K>::run(part, vf::never_stop_mpi()); if (rank == 0) t = text_of(c); });
            if (!o.ok) { r.violate("mpi-run-failed", base, base + ": " + o.what); return; }
            golden.push_back(t);
        }
    }
    std::uint64_t states = 0, transitions = 0, writers_max = 0;
    ifs_state st;
    st.handles.resize(world);
    if (preexisting) { st.names[g_chk] = 0; st.inodes.push_back(golden[0]); }
    sz total_ops = 0;
    for (sz it = 0; it != g_calls.size(); ++it)
    {
        std::vector<std::vector<vf::fs_op>> seq(world);
        std::uint64_t writers = 0;
        for (int k = 0; k != world; ++k)
        {
            seq[k].assign(logs[k].begin() + (it == 0 ? 0 : marks[k][it - 1]), logs[k].begin() + marks[k][it]);
            writers += !seq[k].empty();
            total_ops += seq[k].size();
        }
        writers_max = std::max(writers_max, writers);
        // depth-first over all interleavings of the ranks' sequences of this iteration
        std::set<std::string> seen;
        std::vector<ifs_state> stack;
        st.pos.assign(world, 0);
        stack.push_back(st);
        std::vector<ifs_state> ends;
        bool bad = false;
        auto judge = [&](ifs_state const& s, std::string const& where) {
            auto const f = s.names.find(g_chk);
            if (f == s.names.end())
            {
                if (preexisting || it > 0) { r.violate("checkpoint-file-vanished", base, base + " iteration " + std::to_string(it) + ": killed " + where + ": the checkpoint file is gone"); bad = true; }
                return;
            }
            std::string const& content = s.inodes[f->second];
            bool ok = false;
            for (sz j = (it == 0 ? 0 : it); j <= it + 1 && !ok; ++j) ok = content == golden[j];
            if (it == 0 && preexisting) ok = ok || content == golden[0];
            if (!ok)
            {
                r.violate(content.empty() ? "incomplete-file/empty-after-truncate" : "incomplete-file/partial", base, base + " iteration " + std::to_string(it) + ": killed " + where
                    + ": the checkpoint file holds " + std::to_string(content.size()) + " bytes that are neither the previous nor the new checkpoint (" + std::to_string(writers) + " processes write)");
                bad = true;
            }
        };
        while (!stack.empty() && !bad)
        {
            ifs_state cur = stack.back(); stack.pop_back();
            if (!seen.insert(cur.key()).second) continue;
            ++states;
            std::string where = "at positions";
            for (int k = 0; k != world; ++k) where += " " + std::to_string(cur.pos[k]) + "/" + std::to_string(seq[k].size());
            judge(cur, where);
            bool any = false;
            for (int k = 0; k != world && !bad; ++k)
            {
                if (cur.pos[k] == seq[k].size()) continue;
                any = true;
                vf::fs_op const& op = seq[k][cur.pos[k]];
                // a write that is killed half way (any prefix changes the file the same way: one representative, and the first byte)
                if (op.kind == vf::fs_write && op.data.size() > 1)
                    for (sz b : {sz(1), op.data.size() / 2})
                    {
                        ifs_state half = cur; ifs_apply(half, k, op, b); ++states;
                        judge(half, where + ", rank " + std::to_string(k) + " " + std::to_string(b) + " bytes into " + describe_op(op));
                    }
                ifs_state nxt = cur; ifs_apply(nxt, k, op, std::string::npos); ++nxt.pos[k]; ++transitions;
                stack.push_back(nxt);
            }
            if (!any) ends.push_back(cur);
        }
        if (bad) return;
        // every interleaving must end in the same directory (else the next iteration starts from several states)
        for (sz e = 1; e < ends.size(); ++e) if (ends[e].key() != ends[0].key()) { r.violate("interleaving-dependent-directory", base, base + " iteration " + std::to_string(it) + ": the directory after the iteration depends on the interleaving"); return; }
        if (ends.empty()) { std::fprintf(stderr, "HARNESS: no end state\n"); std::exit(2); }
        st = ends[0];
        auto const f = st.names.find(g_chk);
        if (f == st.names.end() || st.inodes[f->second] != golden[it + 1])
        { r.violate("file-after-the-run-is-not-the-final-checkpoint", base, base + ": after iteration " + std::to_string(it) + " the checkpoint file " + (f == st.names.end() ? "does not exist" : "is not the checkpoint of that iteration")); return; }
    }
    if (total_ops == 0) { r.violate("writing-mode-writes-nothing", base, base + ": no process touched the checkpoint path"); return; }
    r.count("mpi_interleaving_states", states);
    r.count("mpi_processes_writing_max", writers_max);
    r.state(states);
    r.transition(transitions);
    r.distinct(vf::hash_str(base));
    r.outcome("G: processes that touch the directory", std::to_string(writers_max));
}

// files other than the checkpoint file that a run writes (temporary files), learnt from a first run
static std::set<std::string> g_side_files;

template <typename T, int K>
static void scenario(report& r, int mode, bool preexisting, bool leftover = false, long fail_rename = -1, int variant = 0)
{
    // variant 1: the callback is instantiated for the checkpoint's base type; variant 2: the file name ends in ".tmp"
    std::string const saved_chk = g_chk;
    if (variant == 2) g_chk = g_dir + "/run.tmp";
    struct restore { std::string const& s; ~restore() { g_chk = s; } } restore_name{saved_chk};
    using Kt = kit<T, K>;
    using C = typename Kt::C;
    std::string const base = std::string(vf::type_name<T>()) + " kind=" + std::to_string(K) + " mode=" + std::to_string(mode) + " preexisting=" + std::to_string(preexisting)
        + (leftover ? " leftover=1" : "") + (fail_rename >= 0 ? " failing-rename=" + std::to_string(fail_rename) : "")
        + (variant == 1 ? " base-type-callback" : variant == 2 ? " name=run.tmp" : "");
    if (!r.want_prefix(base.substr(0, std::min(base.size(), r.a().replay_case.size())))) return;
    hep::callback_mode const cm = mode == 0 ? hep::callback_mode::silent_and_write_chkpt : hep::callback_mode::verbose_and_write_chkpt;

    // golden texts of the uninterrupted run
    std::vector<std::string> golden;
    {
        C c = Kt::run({}, Kt::fresh(), vf::never_stop());
        golden.push_back(text_of(c));
        for (sz k = 0; k != g_calls.size(); ++k) { c = Kt::run({g_calls[k]}, c, vf::never_stop()); golden.push_back(text_of(c)); }
    }
    std::string const final_text = golden.back();
    std::map<std::string, std::string> initial;
    if (preexisting) initial[g_chk] = golden[0];
    // an earlier run that was killed while writing may have left a partial temporary file behind
    if (leftover) for (auto const& f : g_side_files) initial[f] = golden[1].substr(0, golden[1].size() / 2);
    auto prepare_dir = [&]() {
        clear_dir();
        for (auto const& f : initial) put_file(f.first, f.second);
    };

    auto do_run = [&]() {
        std::ostringstream sink;
        std::streambuf* const old = std::cout.rdbuf(sink.rdbuf());
        g_marks.clear();
        C c = variant == 1 ? Kt::run(g_calls, Kt::fresh(), mark_cb<C, hep::callback<typename Kt::Base>>{hep::callback<typename Kt::Base>(cm, g_chk)})
                           : Kt::run(g_calls, Kt::fresh(), mark_cb<C>{hep::callback<C>(cm, g_chk)});
        std::cout.rdbuf(old);
        return text_of(c);
    };

    // the logged run
    prepare_dir();
    vf::fs() = vf::fs_state();
    vf::fs().dir = g_dir; vf::fs().active = true; vf::fs().fail_rename = fail_rename;
    std::string const ret = do_run();
    vf::fs().active = false;
    auto const log = vf::fs().log;
    auto const marks = g_marks;
    if (ret != final_text) { r.violate("writing-run-differs", base, base + ": the run that writes checkpoints differs from the run that does not"); return; }
    if (vf::fs().offset_mismatch) { std::fprintf(stderr, "short or positional write: not modelled\n"); std::exit(2); }
    // completeness guard: the real directory must be what the log predicts
    {
        auto const predicted = vf::fs_replay(initial, log, log.size(), 0);
        if (predicted != list_dir())
        {
            std::fprintf(stderr, "HARNESS: file system activity bypassed the interposer in %s (log has %zu operations)\n", base.c_str(), log.size());
            auto const real_dir = list_dir();
            for (auto const& f : predicted) std::fprintf(stderr, "  predicted %s: %zu bytes\n", f.first.c_str(), f.second.size());
            for (auto const& f : real_dir) std::fprintf(stderr, "  real      %s: %zu bytes%s\n", f.first.c_str(), f.second.size(), predicted.count(f.first) && predicted.at(f.first) == f.second ? " (same)" : "");
            for (auto const& op : log) std::fprintf(stderr, "  op %s\n", describe_op(op).c_str());
            std::exit(2);
        }
    }
    if (log.empty())
    {
        // nothing reached the file system although a writing mode was requested: there is no checkpoint to resume from
        r.eval();
        r.violate("writing-mode-writes-nothing", base, base + ": the run finished without a single file system call on the checkpoint path");
        return;
    }
    for (auto const& op : log) if (op.kind == vf::fs_open && !op.failed && op.path != g_chk) g_side_files.insert(op.path);
    r.count("logged_operations", log.size());
    {
        auto const at_end = vf::fs_replay(initial, log, log.size(), 0);
        auto const f = at_end.find(g_chk);
        if (f == at_end.end() || (f->second != final_text && fail_rename < 0))
            r.violate("file-after-the-run-is-not-the-final-checkpoint", base, base + ": after the uninterrupted run the checkpoint file " + (f == at_end.end() ? "does not exist" : "differs from the returned checkpoint"));
    }

    // iteration being written at log position i
    auto iteration_of = [&](sz i) { sz it = 0; while (it < marks.size() && i >= marks[it]) ++it; return it; };   // 0-based; == marks.size() after the end

    // ---- enumerate crash states ----
    std::set<std::string> resumed_ok;
    std::uint64_t crash_states = 0;
    std::map<std::string, std::string> state = initial;      // state before operation i
    for (sz i = 0; i <= log.size(); ++i)
    {
        sz const it = std::min(iteration_of(i), g_calls.size() - 1);
        sz const nbytes = (i < log.size() && log[i].kind == vf::fs_write) ? log[i].data.size() : 1;
        for (sz b = 0; b < nbytes; ++b)
        {
            // state with b bytes of the write in flight
            bool const touches = b > 0 && log[i].path == g_chk;
            if (b > 0 && !touches) { ++crash_states; continue; }    // a partial write to another file leaves the checkpoint file as at b = 0
            std::string const id = base + " op=" + std::to_string(i) + " bytes=" + std::to_string(b);
            if (!r.want(id)) continue;
            ++crash_states;
            r.eval();
            auto cur = state;
            if (b > 0) cur = vf::fs_replay(state, std::vector<vf::fs_op>{log[i]}, 0, b);   // the first b bytes, at the position the write has
            auto const f = cur.find(g_chk);
            if (f == cur.end())
            {
                if (preexisting) r.violate("checkpoint-file-vanished", id, id + ": killed before " + (i < log.size() ? describe_op(log[i]) : std::string("the end")) + ": the pre-existing checkpoint file is gone");
                continue;
            }
            std::string const& content = f->second;
            // acceptable: the checkpoint of the previous iteration (or the pre-existing file) or the new one
            std::string const& prev = golden[it];           // after `it` iterations (it = iteration being written, 0-based)
            std::string const& next = golden[it + 1];
            bool ok = content == prev || content == next || (i == log.size() && content == final_text);
            // with a rename that failed earlier the file legitimately still holds an older complete checkpoint
            if (!ok && fail_rename >= 0) for (sz j = 0; j <= it + 1 && !ok; ++j) ok = content == golden[j];
            if (!ok)
            {
                std::string what = content.empty() ? "empty" : (next.compare(0, content.size(), content) == 0 ? "a truncated copy of the new checkpoint (" + std::to_string(content.size()) + " of " + std::to_string(next.size()) + " bytes)" : "neither the previous nor the new checkpoint");
                std::string key = content.empty() ? "incomplete-file/empty-after-truncate" : "incomplete-file/partial";
                r.violate(key, id, id + ": killed " + (b ? "after " + std::to_string(b) + " bytes of " : "before ") + (i < log.size() ? describe_op(log[i]) : std::string("the end"))
                    + " in iteration " + std::to_string(it) + ": the checkpoint file is " + what);
                continue;
            }
            r.outcome("distinct acceptable file contents", content);
            if (resumed_ok.insert(content).second)
            {
                // resume from this file content
                std::istringstream in(content);
                C loaded = Kt::load(in);
                sz const done = loaded.results().size();
                std::vector<sz> rest(g_calls.begin() + done, g_calls.end());
                C fin = Kt::run(rest, loaded, vf::never_stop());
                if (text_of(fin) != final_text) r.violate("resume-from-file-differs", id, id + ": resuming from the file left by the kill does not reproduce the uninterrupted run");
            }
            r.distinct(vf::hash_str(id));
        }
        if (i < log.size()) state = vf::fs_replay(state, std::vector<vf::fs_op>{log[i]}, 1, 0);
    }
    r.count("crash_states_covered", crash_states);
    r.state(crash_states);
    r.transition(log.size());

    // ---- bind the crash model to reality: really kill a child at sampled points ----
    if (!r.a().replay)
    {
        for (sz i = 0; i <= log.size(); ++i)
        {
            std::vector<sz> prefixes = {0};
            if (i < log.size() && log[i].kind == vf::fs_write)
            {
                sz const n = log[i].data.size();
                if (r.a().thorough()) { for (sz b = 1; b < n; b += 97) prefixes.push_back(b); }
                else { prefixes.push_back(1); prefixes.push_back(n / 2); }
                if (n > 1) prefixes.push_back(n - 1);
            }
            for (sz b : prefixes)
            {
                prepare_dir();
                pid_t const pid = fork();
                if (pid == 0)
                {
                    vf::fs() = vf::fs_state();
                    vf::fs().dir = g_dir; vf::fs().active = true; vf::fs().fail_rename = fail_rename;
                    vf::fs().kill_at = static_cast<long>(i); vf::fs().kill_bytes = static_cast<long>(b);
                    (void) do_run();
                    _exit(i == log.size() ? 0 : 7);    // must have been killed before getting here
                }
                int status = 0;
                waitpid(pid, &status, 0);
                if (!WIFEXITED(status) || WEXITSTATUS(status) != 0)
                {
                    std::fprintf(stderr, "HARNESS: kill injection at op %zu byte %zu of %s did not take effect (status %d)\n", i, b, base.c_str(), status);
                    std::exit(2);
                }
                auto const predicted = vf::fs_replay(initial, log, i, b);
                if (predicted != list_dir())
                {
                    std::fprintf(stderr, "HARNESS: real kill at op %zu byte %zu of %s leaves a directory that differs from the simulated crash state\n", i, b, base.c_str());
                    auto const real_dir = list_dir();
                    for (auto const& f : predicted) std::fprintf(stderr, "  simulated %s: %zu bytes\n", f.first.c_str(), f.second.size());
                    for (auto const& f : real_dir) std::fprintf(stderr, "  real      %s: %zu bytes%s\n", f.first.c_str(), f.second.size(),
                        predicted.count(f.first) && predicted.at(f.first) == f.second ? " (same)" : "");
                    for (auto const& f : real_dir) if (predicted.count(f.first))
                    {
                        auto const& q = predicted.at(f.first);
                        sz k = 0; while (k < q.size() && k < f.second.size() && q[k] == f.second[k]) ++k;
                        std::fprintf(stderr, "  first difference at byte %zu; operations:", k);
                        for (sz j = 0; j <= i && j < log.size(); ++j) std::fprintf(stderr, " %s@%ld", describe_op(log[j]).c_str(), log[j].offset);
                        std::fprintf(stderr, "\n");
                    }
                    std::exit(2);
                }
                r.validated();
            }
        }
    }
    clear_dir();
    if (r.wants_sample())
    {
        std::string s = base + ": operations of the last iteration:";
        for (sz i = marks.size() >= 2 ? marks[marks.size() - 2] : 0; i < log.size(); ++i) s += " " + describe_op(log[i]);
        r.sample(s);
    }
}

template <typename T>
static void for_type(report& r)
{
    if (!r.want_prefix(vf::type_name<T>())) return;
    for (int mode = 0; mode != 2; ++mode)
    for (int pre = 0; pre != 2; ++pre)
    {
        scenario<T, 0>(r, mode, pre != 0);
        scenario<T, 1>(r, mode, pre != 0);
        scenario<T, 2>(r, mode, pre != 0);
        // the same with partial temporary files left behind by an earlier killed run
        scenario<T, 0>(r, mode, pre != 0, true);
        scenario<T, 1>(r, mode, pre != 0, true);
        // an environment fault before the kill: the first / second rename of the run fails
        if (mode == 0) { scenario<T, 0>(r, mode, pre != 0, false, 0); scenario<T, 0>(r, mode, pre != 0, false, 1); scenario<T, 2>(r, mode, pre != 0, false, 1); }
        // other spellings: callback for the base checkpoint type, a checkpoint file named "run.tmp"
        if (mode == 0) { scenario<T, 0>(r, mode, pre != 0, false, -1, 1); scenario<T, 1>(r, mode, pre != 0, false, -1, 1); scenario<T, 0>(r, mode, pre != 0, false, -1, 2); }
        if (r.deadline_hit()) return;
    }
    // several processes: every interleaving of the ranks' file operations within an iteration
    for (int mode = 0; mode != 2; ++mode)
    for (int pre = 0; pre != 2; ++pre)
    for (int world = 2; world <= 3; ++world)
    {
        mpi_scenario<T, 0>(r, mode, world, pre != 0);
        if (world == 2) { mpi_scenario<T, 2>(r, mode, world, pre != 0); mpi_scenario<T, 1>(r, mode, world, pre != 0); }
    }
}

int main(int argc, char** argv)
{
    auto const a = vf::parse_args(argc, argv);
    report r(a);
    ::mkdir("build", 0777); ::mkdir("build/out", 0777); ::mkdir("build/out/tmp", 0777);
    char tmpl[] = "build/out/tmp/c18_XXXXXX";
    if (!mkdtemp(tmpl)) { std::perror("mkdtemp"); return 2; }
    g_dir = tmpl;
    g_chk = g_dir + "/run.chkpt";
    if (a.nshards == 1 || a.shard % 3 == 0) for_type<double>(r);
    if (a.nshards == 1 || a.shard % 3 == 1) for_type<float>(r);
    if (a.nshards == 1 || a.shard % 3 == 2) for_type<long double>(r);
    clear_dir();
    ::rmdir(g_dir.c_str());
    return r.finish();
}
