// C19 — each iteration samples with the state derived from the previous one.
// Wiring oracle on real runs (uninterrupted, resumed from text at every split, MPI shim with
// P = 1..3): results()[0] records the user's / default state, results()[k+1].state ==
// refine(results()[k].state, results()[k].adjustment_data(), checkpoint parameters) using the
// library's own refine functions on the expected arguments, and the points, bins and channels the
// integrand saw in iteration k are exactly vegas_icdf(results()[k].pdf(), u) / the interval rule on
// results()[k].channel_weights() for the scripted random numbers u.
#include "common.hpp"
#include "engines.hpp"
#include "mcmodel.hpp"
#include "mpienv.hpp"

#include "hep/mc.hpp"
#include "hep/mc-mpi.hpp"

#include <cmath>

using vf::report;
typedef std::size_t sz;

template <typename T>
struct seen
{
    std::vector<T> point;
    std::vector<sz> bin;
    sz channel = 0;
    T weight = T();
};

template <typename T> static std::vector<seen<T>>& LOG() { static std::vector<seen<T>> l; return l; }

// never-stopping MPI callback that marks the size of the rank's log after every iteration
static std::vector<sz> g_bounds;
template <typename T>
struct mark_mpi
{
    template <typename C>
    bool operator()(MPI_Comm, C const&) const { g_bounds.push_back(LOG<T>().size()); return true; }
};

template <typename T>
struct vfn
{
    T operator()(hep::vegas_point<T> const& p) const
    {
        seen<T> s; s.point = p.point(); s.bin = p.bin(); s.weight = p.weight();
        LOG<T>().push_back(s);
        T v = T(1);
        for (T x : p.point()) v *= T(0.1L) + x * x;
        return v;
    }
};

template <typename T>
struct mfn
{
    T operator()(hep::multi_channel_point<T> const& p) const
    {
        seen<T> s; s.point = p.coordinates(); s.channel = p.channel(); s.weight = p.weight();
        LOG<T>().push_back(s);
        T const y = p.coordinates()[0];
        return T(0.05L) + y * y * y;
    }
    // the same integrand created with a distribution (another overload of make_multi_channel_integrand)
    T operator()(hep::multi_channel_point<T> const& p, hep::projector<T>& proj) const
    {
        T const v = (*this)(p);
        proj.add(0, p.coordinates()[0], v);
        return v;
    }
};

// The weight of a point is a rounded quantity (a sum over channels, a product over dimensions): the state decides
// it up to a few units in the last place, not bit for bit.  Channel, bins and coordinates are compared exactly.
template <typename T>
static bool close_weight(T a, T b)
{
    return vf::same_bits(a, b) || std::fabs(a - b) <= 16 * std::numeric_limits<T>::epsilon() * std::fabs(b);
}

template <typename T>
static bool same_vec(std::vector<T> const& a, std::vector<T> const& b)
{
    if (a.size() != b.size()) return false;
    for (sz i = 0; i != a.size(); ++i) if (!vf::same_bits(a[i], b[i])) return false;
    return true;
}

template <typename T>
static bool same_pdf(hep::vegas_pdf<T> const& a, hep::vegas_pdf<T> const& b)
{
    if (a.bins() != b.bins() || a.dimensions() != b.dimensions()) return false;
    for (sz d = 0; d != a.dimensions(); ++d) for (sz i = 0; i <= a.bins(); ++i) if (!vf::same_bits(a.bin_left(d, i), b.bin_left(d, i))) return false;
    return true;
}

template <typename T>
static std::string show_pdf(hep::vegas_pdf<T> const& p)
{
    std::string s;
    for (sz d = 0; d != p.dimensions(); ++d) { s += "["; for (sz i = 0; i <= p.bins(); ++i) s += (i ? "," : "") + vf::dec(p.bin_left(d, i)); s += "]"; }
    return s;
}

// canonical numbers of the scripted stream starting at raw position `pos`
template <typename T>
static std::vector<T> canon(std::uint64_t pos, sz count)
{
    vf::script_engine e(pos);
    std::vector<T> u;
    for (sz i = 0; i != count; ++i) u.push_back(std::generate_canonical<T, std::numeric_limits<T>::digits>(e));
    return u;
}

static std::vector<std::vector<sz>> const g_calls_lists = {{3}, {2, 4}, {3, 1, 4}, {2, 3, 2, 4}, {2, 1, 3, 2, 4}};

// execution modes: 0 uninterrupted, 1.. resumed from text after `mode` iterations, 100+P MPI with P ranks
template <typename T>
static void vegas_case(report& r, std::string const& id, sz iters, int gridkind, T alpha, int mode)
{
    sz const dims = gridkind == 2 ? 3 : 2;      // the 4-bin default grid runs in three dimensions
    auto const& calls = g_calls_lists[iters - 1];
    using E = vf::script_engine;
    vf::script_engine::table().clear();
    vf::script_engine::salt() = 1900;
    hep::vegas_pdf<T> user(2, 3);
    user.set_bin_left(0, 1, T(0.2L)); user.set_bin_left(0, 2, T(0.3L)); user.set_bin_left(1, 1, T(0.5));
    sz const bins = gridkind <= 3 ? sz(2 + gridkind) : 3;
    auto fresh = [&]() {
        return gridkind <= 3 ? hep::make_vegas_chkpt<T, E>(bins, alpha, E()) : hep::make_vegas_chkpt<T, E>(user, alpha, E());
    };
    auto integrand = hep::make_integrand<T>(vfn<T>(), dims);
    LOG<T>().clear();
    r.eval();
    auto chk = fresh();
    std::vector<seen<T>> log;
    if (mode == 0) { chk = hep::vegas(integrand, calls, chk, vf::never_stop()); log = LOG<T>(); }
    else if (mode == 60)
    {
        // another run first (one iteration with other calls), a look at the grid it leads to, back to the start, then the run proper
        chk = hep::vegas(integrand, std::vector<sz>{calls[0] + 3}, chk, vf::never_stop());
        (void) chk.pdf();
        chk.rollback(0);
        LOG<T>().clear();
        chk = hep::vegas(integrand, calls, chk, vf::never_stop()); log = LOG<T>();
    }
    else if (mode == 61)
    {
        // one iteration, written to text and read back, continued, back to the start, then the run proper
        chk = hep::vegas(integrand, std::vector<sz>{calls[0] + 3}, chk, vf::never_stop());
        std::ostringstream out; chk.serialize(out);
        std::istringstream in(out.str());
        auto loaded = hep::make_vegas_chkpt<T, E>(in);
        loaded = hep::vegas(integrand, std::vector<sz>{calls[0] + 1}, loaded, vf::never_stop());
        loaded.rollback(0);
        LOG<T>().clear();
        chk = hep::vegas(integrand, calls, loaded, vf::never_stop()); log = LOG<T>();
    }
    else if (mode < 100)
    {
        sz const split = mode == 50 ? 0 : sz(mode);
        std::vector<sz> a(calls.begin(), calls.begin() + split), b(calls.begin() + split, calls.end());
        if (split) chk = hep::vegas(integrand, a, chk, vf::never_stop());
        std::ostringstream out; chk.serialize(out);
        std::istringstream in(out.str());
        auto loaded = hep::make_vegas_chkpt<T, E>(in);
        chk = hep::vegas(integrand, b, loaded, vf::never_stop());
        log = LOG<T>();
    }
    else
    {
        // 100 + P: MPI run with P ranks; 1000 + 100 s + P: the first s iterations serially, written to text, read back and
        // continued under MPI with P ranks
        int const world = mode >= 1000 ? mode % 100 : mode - 100;
        sz const split = mode >= 1000 ? sz((mode - 1000) / 100) : 0;
        std::vector<sz> const first(calls.begin(), calls.begin() + split), rest(calls.begin() + split, calls.end());
        auto start = fresh();
        if (split)
        {
            start = hep::vegas(integrand, first, start, vf::never_stop());
            log = LOG<T>();
            std::ostringstream o; start.serialize(o);
            std::istringstream in(o.str());
            start = hep::make_vegas_chkpt<T, E>(in);
        }
        vf::mpi_env env(world);
        std::vector<std::vector<seen<T>>> per_rank(world);
        std::vector<std::vector<sz>> bounds(world);
        std::vector<std::string> texts(world);
        auto out = env.run([&](int rank) {
            LOG<T>().clear(); g_bounds.clear();
            auto c = hep::mpi_vegas(MPI_COMM_WORLD, integrand, rest, start, mark_mpi<T>());
            per_rank[rank] = LOG<T>(); bounds[rank] = g_bounds;
            std::ostringstream o; c.serialize(o); texts[rank] = o.str();
            if (rank == 0) chk = c;
        });
        if (!out.ok) { r.violate("mpi-run-failed", id, id + ": " + out.what); return; }
        for (int k = 1; k < world; ++k) if (texts[k] != texts[0]) { r.violate("ranks-return-different-checkpoints", id, id); return; }
        // concatenate the per-rank logs iteration by iteration in rank order (boundaries marked by the callback)
        for (sz it = 0; it != rest.size(); ++it)
            for (int k = 0; k != world; ++k)
            {
                if (bounds[k].size() != rest.size()) { r.violate("callback-invocations", id, id + ": rank " + std::to_string(k) + " invoked the callback " + std::to_string(bounds[k].size()) + " times"); return; }
                for (sz i = it ? bounds[k][it - 1] : 0; i != bounds[k][it]; ++i) log.push_back(per_rank[k][i]);
            }
    }
    auto const& res = chk.results();
    if (res.size() != calls.size()) { r.violate("wrong-number-of-results", id, id + ": " + std::to_string(res.size()) + " results"); return; }
    // first state
    hep::vegas_pdf<T> const first = gridkind <= 3 ? hep::vegas_pdf<T>(dims, bins) : user;
    if (!same_pdf(res[0].pdf(), first))
    { r.violate("first-iteration-state", id, id + ": first result records grid " + show_pdf(res[0].pdf()) + ", expected " + show_pdf(first)); return; }
    if (!vf::same_bits(chk.alpha(), alpha)) { r.violate("parameter-lost", id, id + ": alpha"); return; }
    // chain
    for (sz k = 0; k != res.size(); ++k)
    {
        auto const want = hep::vegas_refine_pdf(res[k].pdf(), alpha, res[k].adjustment_data());
        auto const got = (k + 1 < res.size()) ? res[k + 1].pdf() : chk.pdf();
        if (!same_pdf(got, want))
        {
            r.violate("state-not-refined-from-previous-result", id, id + ": grid after iteration " + std::to_string(k) + " is " + show_pdf(got)
                + ", refining result " + std::to_string(k) + " with alpha " + vf::dec(alpha) + " gives " + show_pdf(want));
            return;
        }
        r.transition();
        r.outcome("grids", show_pdf(got));
    }
    // points
    sz total = 0; for (sz c : calls) total += c;
    if (log.size() != total) { r.violate("integrand-call-count", id, id + ": " + std::to_string(log.size()) + " calls logged"); return; }
    std::uint64_t pos = 0; sz li = 0;
    for (sz k = 0; k != res.size(); ++k)
    {
        for (sz i = 0; i != calls[k]; ++i, ++li)
        {
            std::vector<T> u = canon<T>(pos, dims); pos += dims;
            std::vector<sz> bin(dims);
            T const w = hep::vegas_icdf(res[k].pdf(), u, bin);
            if (!same_vec(u, log[li].point) || bin != log[li].bin || !close_weight(w, log[li].weight))
            {
                r.violate("points-not-drawn-with-recorded-state", id, id + ": call " + std::to_string(i) + " of iteration " + std::to_string(k) + " saw point ("
                    + vf::join_dec(log[li].point) + ") bins (" + vf::join(log[li].bin) + "), the grid recorded in the result maps the random numbers to (" + vf::join_dec(u) + ") bins (" + vf::join(bin) + ")");
                return;
            }
        }
    }
    r.state(res.size());
}

template <typename T, typename I>
static void mc_case_with(report& r, std::string const& id, sz iters, int wkind, T beta, T minw, int mode, vf::pl_map<T> const& map, I integrand)
{
    auto const& calls = g_calls_lists[iters - 1];
    using E = vf::script_engine;
    vf::script_engine::table().clear();
    vf::script_engine::salt() = 1901;
    std::vector<T> const user = wkind == 1 ? std::vector<T>{T(2), T(5), T(3)} : std::vector<T>{T(0), T(1), T(2)};
    auto fresh = [&]() {
        return wkind == 0 ? hep::make_multi_channel_chkpt<T, E>(minw, beta, E()) : hep::make_multi_channel_chkpt<T, E>(user, minw, beta, E());
    };
    LOG<T>().clear();
    r.eval();
    auto chk = fresh();
    std::vector<seen<T>> log;
    if (mode == 0) { chk = hep::multi_channel(integrand, calls, chk, vf::never_stop()); log = LOG<T>(); }
    else if (mode == 60)
    {
        chk = hep::multi_channel(integrand, std::vector<sz>{calls[0] + 3}, chk, vf::never_stop());
        (void) chk.channel_weights();
        chk.rollback(0);
        LOG<T>().clear();
        chk = hep::multi_channel(integrand, calls, chk, vf::never_stop()); log = LOG<T>();
    }
    else if (mode == 61)
    {
        chk = hep::multi_channel(integrand, std::vector<sz>{calls[0] + 3}, chk, vf::never_stop());
        std::ostringstream out; chk.serialize(out);
        std::istringstream in(out.str());
        auto loaded = hep::make_multi_channel_chkpt<T, E>(in);
        loaded = hep::multi_channel(integrand, std::vector<sz>{calls[0] + 1}, loaded, vf::never_stop());
        loaded.rollback(0);
        LOG<T>().clear();
        chk = hep::multi_channel(integrand, calls, loaded, vf::never_stop()); log = LOG<T>();
    }
    else if (mode < 100)
    {
        sz const split = mode == 50 ? 0 : sz(mode);
        std::vector<sz> a(calls.begin(), calls.begin() + split), b(calls.begin() + split, calls.end());
        if (split) chk = hep::multi_channel(integrand, a, chk, vf::never_stop());
        std::ostringstream out; chk.serialize(out);
        std::istringstream in(out.str());
        auto loaded = hep::make_multi_channel_chkpt<T, E>(in);
        chk = hep::multi_channel(integrand, b, loaded, vf::never_stop());
        log = LOG<T>();
    }
    else
    {
        int const world = mode >= 1000 ? mode % 100 : mode - 100;
        sz const split = mode >= 1000 ? sz((mode - 1000) / 100) : 0;
        std::vector<sz> const first(calls.begin(), calls.begin() + split), rest(calls.begin() + split, calls.end());
        auto start = fresh();
        if (split)
        {
            start = hep::multi_channel(integrand, first, start, vf::never_stop());
            log = LOG<T>();
            std::ostringstream o; start.serialize(o);
            std::istringstream in(o.str());
            start = hep::make_multi_channel_chkpt<T, E>(in);
        }
        vf::mpi_env env(world);
        std::vector<std::vector<seen<T>>> per_rank(world);
        std::vector<std::vector<sz>> bounds(world);
        std::vector<std::string> texts(world);
        auto out = env.run([&](int rank) {
            LOG<T>().clear(); g_bounds.clear();
            auto c = hep::mpi_multi_channel(MPI_COMM_WORLD, integrand, rest, start, mark_mpi<T>());
            per_rank[rank] = LOG<T>(); bounds[rank] = g_bounds;
            std::ostringstream o; c.serialize(o); texts[rank] = o.str();
            if (rank == 0) chk = c;
        });
        if (!out.ok) { r.violate("mpi-run-failed", id, id + ": " + out.what); return; }
        for (int k = 1; k < world; ++k) if (texts[k] != texts[0]) { r.violate("ranks-return-different-checkpoints", id, id); return; }
        for (sz it = 0; it != rest.size(); ++it)
            for (int k = 0; k != world; ++k)
            {
                if (bounds[k].size() != rest.size()) { r.violate("callback-invocations", id, id + ": rank " + std::to_string(k) + " invoked the callback " + std::to_string(bounds[k].size()) + " times"); return; }
                for (sz i = it ? bounds[k][it - 1] : 0; i != bounds[k][it]; ++i) log.push_back(per_rank[k][i]);
            }
    }
    auto const& res = chk.results();
    if (res.size() != calls.size()) { r.violate("wrong-number-of-results", id, id + ": " + std::to_string(res.size()) + " results"); return; }
    std::vector<T> const first = wkind == 0 ? std::vector<T>(3, T(1) / T(3)) : hep::multi_channel_refine_weights(user, std::vector<T>(3, T(1)), minw, beta);
    if (!same_vec(res[0].channel_weights(), first))
    { r.violate("first-iteration-state", id, id + ": first result records weights " + vf::join_dec(res[0].channel_weights()) + ", expected " + vf::join_dec(first)); return; }
    if (wkind != 0)
    {
        // independent of the library: proportional to the user's weights where they are above the floor
        long double su = 0; for (T v : user) su += v;
        for (sz i = 0; i != 3; ++i)
        {
            if ((user[i] == T()) != (first[i] == T())) { r.violate("first-iteration-state", id, id + ": enabled set changed by the constructor"); return; }
        }
        if (minw == T())
            for (sz i = 0; i != 3; ++i)
                if (!(std::fabs(static_cast<long double>(res[0].channel_weights()[i]) - user[i] / su) <= 8 * std::numeric_limits<T>::epsilon()))
                { r.violate("first-iteration-state", id, id + ": first weights " + vf::join_dec(res[0].channel_weights()) + " are not the normalised user weights"); return; }
    }
    if (!vf::same_bits(chk.beta(), beta) || !vf::same_bits(chk.min_weight(), minw)) { r.violate("parameter-lost", id, id + ": beta / min_weight"); return; }
    for (sz k = 0; k != res.size(); ++k)
    {
        auto const want = hep::multi_channel_refine_weights(res[k].channel_weights(), res[k].adjustment_data(), minw, beta);
        auto const got = (k + 1 < res.size()) ? res[k + 1].channel_weights() : chk.channel_weights();
        if (!same_vec(got, want))
        {
            r.violate("state-not-refined-from-previous-result", id, id + ": weights after iteration " + std::to_string(k) + " are " + vf::join_dec(got)
                + ", refining result " + std::to_string(k) + " (beta " + vf::dec(beta) + ", min " + vf::dec(minw) + ") gives " + vf::join_dec(want));
            return;
        }
        r.transition();
        r.outcome("weights", vf::join_dec(got));
    }
    sz total = 0; for (sz c : calls) total += c;
    if (log.size() != total) { r.violate("integrand-call-count", id, id + ": " + std::to_string(log.size()) + " calls logged"); return; }
    std::uint64_t pos = 0; sz li = 0;
    for (sz k = 0; k != res.size(); ++k)
    {
        auto const& w = res[k].channel_weights();
        hep::discrete_distribution<sz, T> sel(w.begin(), w.end());
        for (sz i = 0; i != calls[k]; ++i, ++li)
        {
            std::vector<T> const u = canon<T>(pos, 1);
            vf::script_engine e(pos + 1);
            sz const channel = sel(e);
            pos += 2;
            std::vector<T> coords(1), dens(3);
            map(channel, u, coords, {}, dens, hep::multi_channel_map::calculate_coordinates);
            T const jac = map(channel, u, coords, {}, dens, hep::multi_channel_map::calculate_densities);
            T tot = T();
            for (sz j = 0; j != 3; ++j) tot += w[j] * dens[j];
            T const weight = jac / tot;
            if (channel != log[li].channel || !same_vec(coords, log[li].point) || !close_weight(weight, log[li].weight))
            {
                r.violate("points-not-drawn-with-recorded-state", id, id + ": call " + std::to_string(i) + " of iteration " + std::to_string(k) + " saw channel "
                    + std::to_string(log[li].channel) + " coordinate " + vf::join_dec(log[li].point) + " weight " + vf::dec(log[li].weight)
                    + ", the weights recorded in the result select channel " + std::to_string(channel) + " coordinate " + vf::join_dec(coords) + " weight " + vf::dec(weight));
                return;
            }
        }
    }
    r.state(res.size());
}

template <typename T>
static void mc_case(report& r, std::string const& id, sz iters, int wkind, T beta, T minw, int mode, bool dist = false)
{
    vf::pl_map<T> map; map.split = {T(0.25), T(0.5), T(0.75)};
    if (dist) mc_case_with<T>(r, id, iters, wkind, beta, minw, mode, map, hep::make_multi_channel_integrand<T>(mfn<T>(), 1, map, 1, 3, hep::make_dist_params<T>(2, T(0), T(1), "d")));
    else mc_case_with<T>(r, id, iters, wkind, beta, minw, mode, map, hep::make_multi_channel_integrand<T>(mfn<T>(), 1, map, 1, 3));
}

template <typename T>
static void for_type(report& r)
{
    std::string const tn = vf::type_name<T>();
    if (!r.want_prefix(tn)) return;
    for (sz iters = 1; iters <= (r.a().thorough() ? 5u : 4u); ++iters)
    {
        std::vector<int> modes = {0, 50, 60, 61};  // 50: written to text and read back before the first iteration; 60: after another run and a rollback to the start
        for (sz s = 1; s < iters; ++s) modes.push_back(int(s));
        for (int p = 1; p <= (r.a().thorough() ? 4 : 3); ++p) modes.push_back(100 + p);
        // a serial run resumed under MPI (from text, after s iterations)
        for (sz s = 1; s < iters; ++s) for (int p : {1, 3}) modes.push_back(1000 + 100 * int(s) + p);
        for (int mode : modes)
        {
            for (int gk = 0; gk <= 4; ++gk)
            for (T alpha : {T(0), T(0.5), T(1.5), T(4) / T(3)})
            {
                if (mode == 50 && gk != 4) continue;    // a default checkpoint whose dimension is not set yet cannot be written
                std::string const id = tn + " vegas iters=" + std::to_string(iters) + " mode=" + std::to_string(mode) + " grid=" + std::to_string(gk) + " alpha=" + vf::dec(alpha);
                if (!r.want(id)) continue;
                vegas_case<T>(r, id, iters, gk, alpha, mode);
                if (iters > 1) r.distinct(vf::hash_str(id));
                if (r.wants_sample() && iters == 3 && mode == 2) r.sample(id);
            }
            for (int wk = 0; wk <= 2; ++wk)
            for (T beta : {T(0.25), T(1)})
            for (T minw : {T(0), T(0.05L)})
            {
                std::string const id = tn + " multi_channel iters=" + std::to_string(iters) + " mode=" + std::to_string(mode) + " weights=" + std::to_string(wk)
                    + " beta=" + vf::dec(beta) + " min=" + vf::dec(minw);
                if (!r.want(id)) continue;
                mc_case<T>(r, id, iters, wk, beta, minw, mode);
                if (iters > 1) r.distinct(vf::hash_str(id));
                // the integrand created with a distribution (3 channels, 1 map dimension)
                if (wk <= 1 && minw == T() && r.want(id + " dist")) { mc_case<T>(r, id + " dist", iters, wk, beta, minw, mode, true); r.distinct(vf::hash_str(id + " dist")); }
            }
        }
    }
    vf::script_engine::salt() = 0;
}

int main(int argc, char** argv)
{
    auto const a = vf::parse_args(argc, argv);
    report r(a);
#if VF_PART_ENABLED(0)
    if (a.nshards == 1 || a.shard % 3 == 0) for_type<float>(r);
#endif
#if VF_PART_ENABLED(1)
    if (a.nshards == 1 || a.shard % 3 == 1) for_type<double>(r);
#endif
#if VF_PART_ENABLED(2)
    if (a.nshards == 1 || a.shard % 3 == 2) for_type<long double>(r);
#endif
    return r.finish();
}
