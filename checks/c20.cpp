// C20 — reporting never changes or breaks a run.
//  A. 4 callback modes x PLAIN / VEGAS / MULTI-CHANNEL (1..30 channels, weight patterns) x integrands:
//     the final checkpoint text and the texts handed to every callback invocation must be identical
//     across the modes; the file exists iff a writing mode is used and equals the final text; under
//     the MPI shim only rank 0 prints and writes.
//  B. multi_channel_summary directly on every weight pattern for 1..14 and 30 channels.
// Built with ASan/UBSan/_GLIBCXX_ASSERTIONS; a per-case time limit turns a non-terminating print into a
// reported hang.
#include "common.hpp"
#include "engines.hpp"
#include "mcmodel.hpp"
#include "mpienv.hpp"

#include "hep/mc.hpp"

#include <fcntl.h>
#include "hep/mc-mpi.hpp"

#include <cmath>
#include <fstream>
#include <sys/stat.h>
#include <unistd.h>

using vf::report;
typedef std::size_t sz;

static std::string g_dir;

static std::string read_file(std::string const& path, bool& exists)
{
    std::ifstream in(path);
    exists = static_cast<bool>(in);
    std::stringstream s;
    s << in.rdbuf();
    return s.str();
}

template <typename C>
static std::string text_of(C const& c) { std::ostringstream o; c.serialize(o); return o.str(); }

static int g_integrand = 0;   // 0 zero, 1 constant, 2 NaN sometimes, 3 linear

template <typename T>
static T val(T x)
{
    sz const cell = static_cast<sz>(x * T(32));
    switch (g_integrand)
    {
    case 0: return T();
    case 1: return T(1);
    case 2: return cell % 4 == 1 ? std::numeric_limits<T>::quiet_NaN() : T(0.5) + x;
    default: return T(0.25) + x;
    }
}
template <typename T> struct pf { T operator()(hep::mc_point<T> const& p) const { return val<T>(p.point()[0]); } };
template <typename T> struct mf { T operator()(hep::multi_channel_point<T> const& p) const { return val<T>(p.coordinates()[0]); } };

template <typename C>
struct rec_cb
{
    hep::callback<C> inner;
    std::vector<std::string>* seen;
    bool operator()(C const& c) { seen->push_back(text_of(c)); return inner(c); }
};
template <typename C>
struct rec_mpi_cb
{
    hep::mpi_callback<C> inner;
    std::vector<std::string>* seen;
    bool operator()(MPI_Comm comm, C const& c) { seen->push_back(text_of(c)); return inner(comm, c); }
};

static hep::callback_mode const g_modes[] = {hep::callback_mode::silent, hep::callback_mode::silent_and_write_chkpt,
    hep::callback_mode::verbose, hep::callback_mode::verbose_and_write_chkpt};

// the callback is constructed from a temporary file name and used after that temporary is gone (the usual way to
// write it: `hep::callback<C> cb(mode, "run.chkpt", target);`)
template <typename C, typename T>
static hep::callback<C> make_cb(int mode, std::string const& file, T target)
{
    hep::callback<C> cb(g_modes[mode], std::string(file.c_str()), target);
    return cb;
}

struct mode_out { std::string text; std::vector<std::string> seen; std::string printed; bool file_exists = false; std::string file; };

// kind 0 plain, 1 vegas, 2 multi-channel with `channels` and weight pattern `wp`
template <typename T>
static std::vector<T> weight_pattern(sz channels, int wp)
{
    std::vector<T> w(channels, T(1));
    switch (wp)
    {
    case 1: for (sz i = 1; i < channels; ++i) w[i] = T(1e-6L); break;              // all but one end at the floor
    case 2: for (sz i = 0; i < channels; i += 2) if (i + 1 < channels || channels > 1) w[i] = (i == 0 && channels == 1) ? T(1) : T(0); if (channels > 1) w[channels - 1] = T(1); break;   // disabled ones
    case 3: for (sz i = 0; i != channels; ++i) w[i] = T(i + 1); break;             // strictly increasing
    }
    return w;
}

template <typename T>
static mode_out run_serial(int kind, sz channels, int wp, int mode, std::vector<sz> const& calls, T target, int file_variant = 0)
{
    using E = vf::script_engine;
    mode_out out;
    // file_variant 1: the default (empty) file name; 2: a path that cannot be written (the directory does not exist)
    std::string const file = file_variant == 1 ? std::string() : file_variant == 2 ? g_dir + "/no-such-directory/serial.chkpt" : g_dir + "/serial.chkpt";
    ::unlink(file.c_str());
    vf::script_engine::table().clear();
    vf::script_engine::salt() = 2000;
    std::ostringstream captured;
    std::streambuf* const old = std::cout.rdbuf(captured.rdbuf());
    // without a file name a writing mode works on names made of a suffix only, relative to the current directory: run there
    int const here = file_variant == 1 ? ::open(".", O_RDONLY) : -1;
    if (file_variant == 1 && (here < 0 || ::chdir(g_dir.c_str()) != 0)) { std::perror("scratch directory"); std::exit(2); }
    struct back_home { int fd; ~back_home() { if (fd >= 0) { if (::fchdir(fd) != 0) std::abort(); ::close(fd); } } } const home{here};
    try
    {
        if (kind == 0)
        {
            using C = hep::plain_chkpt_with_rng<E, T>;
            auto c = hep::plain(hep::make_integrand<T>(pf<T>(), 1), calls, hep::make_plain_chkpt<T, E>(E()), rec_cb<C>{make_cb<C>(mode, file, target), &out.seen});
            out.text = text_of(c);
        }
        else if (kind == 1)
        {
            using C = hep::vegas_chkpt_with_rng<E, T>;
            auto c = hep::vegas(hep::make_integrand<T>(pf<T>(), 1), calls, hep::make_vegas_chkpt<T, E>(4, T(0.5), E()), rec_cb<C>{make_cb<C>(mode, file, target), &out.seen});
            out.text = text_of(c);
        }
        else
        {
            using C = hep::multi_channel_chkpt_with_rng<E, T>;
            vf::pl_map<T> map;
            for (sz i = 0; i != channels; ++i) map.split.push_back(T(i + 1) / T(channels + 1));
            auto c = hep::multi_channel(hep::make_multi_channel_integrand<T>(mf<T>(), 1, map, 1, channels), calls,
                hep::make_multi_channel_chkpt<T, E>(weight_pattern<T>(channels, wp), T(0.01L), T(0.375), E()), rec_cb<C>{make_cb<C>(mode, file, target), &out.seen});
            out.text = text_of(c);
        }
    }
    catch (...) { std::cout.rdbuf(old); throw; }
    std::cout.rdbuf(old);
    out.printed = captured.str();
    out.file = read_file(file, out.file_exists);
    ::unlink(file.c_str());
    return out;
}

template <typename T>
static void part_a(report& r)
{
    std::string const tn = vf::type_name<T>();
    std::vector<sz> const calls = {30, 45, 20};
    struct cfg { int kind; sz channels; int wp; };
    std::vector<cfg> cfgs = {{0, 0, 0}, {1, 0, 0}};
    for (sz c : {sz(1), sz(2), sz(3), sz(7), sz(12), sz(13), sz(14), sz(30)}) for (int wp = 0; wp != 4; ++wp) cfgs.push_back({2, c, wp});
    for (auto const& c : cfgs)
    for (int integrand = 0; integrand != 4; ++integrand)
    for (T target : {T(0), T(0.12L), T(-1)})      // -1: no target, and the second iteration is asked for zero calls
    for (int fv = 0; fv != 3; ++fv)               // the checkpoint file: writable, no name given, not writable
    {
        if (target < T() && c.kind == 2 && c.channels > 3) continue;
        if (fv != 0 && (target < T() || (c.kind == 2 && (c.channels != 3 || c.wp != 3)))) continue;
        std::string const id = tn + " A kind=" + std::to_string(c.kind) + " channels=" + std::to_string(c.channels) + " weights=" + std::to_string(c.wp) + " integrand=" + std::to_string(integrand)
            + " target=" + vf::dec(target) + (fv == 1 ? " no-file-name" : fv == 2 ? " unwritable-file" : "");
        if (!r.want(id)) continue;
        r.eval();
        g_integrand = integrand;
        std::vector<mode_out> outs;
        bool threw = false;
        for (int m = 0; m != 4 && !threw; ++m)
        {
            try { outs.push_back(run_serial<T>(c.kind, c.channels, c.wp, m, target < T() ? std::vector<sz>{30, 0, 20} : calls, target < T() ? T() : target, fv)); }
            catch (std::exception const& e) { r.violate("reporting-threw", id, id + " mode " + std::to_string(m) + ": exception " + e.what()); threw = true; }
        }
        if (threw) continue;
        for (int m = 1; m != 4; ++m)
        {
            if (outs[m].text != outs[0].text) { r.violate("mode-changes-result", id, id + ": final checkpoint of mode " + std::to_string(m) + " differs from the silent run"); break; }
            if (outs[m].seen != outs[0].seen) { r.violate("mode-changes-result", id, id + ": the checkpoints handed to the callback in mode " + std::to_string(m) + " differ from the silent run"); break; }
        }
        if (target <= T() && outs[0].seen.size() != calls.size()) r.violate("mode-changes-result", id, id + ": silent run performed " + std::to_string(outs[0].seen.size()) + " iterations");
        r.outcome("iterations performed", outs[0].seen.size());
        for (int m = 0; m != 4; ++m)
        {
            bool const writes = (m == 1 || m == 3) && fv == 0, prints = m >= 2;
            if (outs[m].file_exists != writes) r.violate("file-written-iff-writing-mode", id, id + " mode " + std::to_string(m) + ": checkpoint file " + (outs[m].file_exists ? "exists" : "missing"));
            else if (writes && outs[m].file != outs[m].text) r.violate("file-differs-from-result", id, id + " mode " + std::to_string(m) + ": the file is not the final checkpoint");
            if (prints == outs[m].printed.empty()) r.violate("prints-iff-verbose", id, id + " mode " + std::to_string(m) + ": printed " + std::to_string(outs[m].printed.size()) + " characters");
        }
        r.outcome("printed reports", outs[2].printed);
        r.distinct(vf::hash_str(id));
        if (r.wants_sample() && c.channels == 13 && c.wp == 3 && integrand == 3) r.sample(id + "\n" + outs[2].printed.substr(0, 600));
    }

    // MPI shim, 3 ranks: only rank 0 prints and writes, every rank returns the same checkpoint as the serial run
    for (int kind = 0; kind != 3; ++kind)
    for (int m = 0; m != 4; ++m)
    for (int integrand : {0, 3})
    for (T target : {T(0), T(0.12L)})
    {
        std::string const id = tn + " A mpi kind=" + std::to_string(kind) + " mode=" + std::to_string(m) + " integrand=" + std::to_string(integrand) + " target=" + vf::dec(target);
        if (!r.want(id)) continue;
        r.eval();
        g_integrand = integrand;
        using E = vf::script_engine;
        int const world = 3;
        vf::mpi_env env(world);
        // half of the configurations run on a sub-communicator whose rank 0 is not rank 0 of MPI_COMM_WORLD: "rank 0" is
        // the first rank of the communicator the integrator was given
        env.subgroup = integrand == 3;
        MPI_Comm const comm = env.subgroup ? env.comm() : MPI_COMM_WORLD;
        std::vector<std::string> texts(world);
        vf::script_engine::table().clear();
        vf::script_engine::salt() = 2000;
        for (int k = 0; k != world; ++k) ::unlink((g_dir + "/rank" + std::to_string(k) + ".chkpt").c_str());
        auto out = env.run([&](int rank) {
            std::string const file = g_dir + "/rank" + std::to_string(rank) + ".chkpt";
            std::vector<std::string> seen;
            if (kind == 0)
            {
                using C = hep::plain_chkpt_with_rng<E, T>;
                texts[rank] = text_of(hep::mpi_plain(comm, hep::make_integrand<T>(pf<T>(), 1), calls, hep::make_plain_chkpt<T, E>(E()), rec_mpi_cb<C>{hep::mpi_callback<C>(g_modes[m], file, target), &seen}));
            }
            else if (kind == 1)
            {
                using C = hep::vegas_chkpt_with_rng<E, T>;
                texts[rank] = text_of(hep::mpi_vegas(comm, hep::make_integrand<T>(pf<T>(), 1), calls, hep::make_vegas_chkpt<T, E>(4, T(0.5), E()), rec_mpi_cb<C>{hep::mpi_callback<C>(g_modes[m], file, target), &seen}));
            }
            else
            {
                using C = hep::multi_channel_chkpt_with_rng<E, T>;
                vf::pl_map<T> map; map.split = {T(0.25), T(0.5), T(0.75)};
                texts[rank] = text_of(hep::mpi_multi_channel(comm, hep::make_multi_channel_integrand<T>(mf<T>(), 1, map, 1, 3), calls,
                    hep::make_multi_channel_chkpt<T, E>(weight_pattern<T>(3, 3), T(0.01L), T(0.375), E()), rec_mpi_cb<C>{hep::mpi_callback<C>(g_modes[m], file, target), &seen}));
            }
        });
        if (!out.ok) { r.violate("mpi-run-failed", id, id + ": " + out.what); continue; }
        bool const writes = m == 1 || m == 3, prints = m >= 2;
        for (int k = 0; k != world; ++k)
        {
            bool ex; std::string const f = read_file(g_dir + "/rank" + std::to_string(k) + ".chkpt", ex);
            if (k == 0)
            {
                if (ex != writes) r.violate("file-written-iff-writing-mode", id, id + ": rank 0 file " + (ex ? "exists" : "missing"));
                else if (writes && f != texts[0]) r.violate("file-differs-from-result", id, id + ": rank 0 file is not the final checkpoint");
                if (prints == env.rank_output[0].empty()) r.violate("prints-iff-verbose", id, id + ": rank 0 printed " + std::to_string(env.rank_output[0].size()) + " characters");
            }
            else
            {
                if (ex) r.violate("non-root-rank-writes", id, id + ": rank " + std::to_string(k) + " wrote a checkpoint file");
                if (!env.rank_output[k].empty()) r.violate("non-root-rank-prints", id, id + ": rank " + std::to_string(k) + " printed: " + env.rank_output[k].substr(0, 200));
                if (texts[k] != texts[0]) r.violate("mode-changes-result", id, id + ": rank " + std::to_string(k) + " returns a different checkpoint");
            }
            ::unlink((g_dir + "/rank" + std::to_string(k) + ".chkpt").c_str());
        }
        r.distinct(vf::hash_str(id));
    }
    vf::script_engine::salt() = 0;
}

// ---- B: the summary on every weight pattern -------------------------------------------------------------

template <typename T>
static void part_b(report& r)
{
    std::string const tn = vf::type_name<T>();
    std::vector<sz> channel_counts;
    for (sz c = 1; c <= 48; ++c) channel_counts.push_back(c);
    for (sz c : channel_counts)
    {
        std::vector<std::vector<T>> patterns;
        patterns.push_back(std::vector<T>(c, T(1)));                                   // all equal
        for (sz big = 0; big < c; big += std::max<sz>(1, c / 3)) { std::vector<T> w(c, T(0.01L)); w[big] = T(1); patterns.push_back(w); }
        for (sz k = 1; k < c; ++k) { std::vector<T> w(c, T(1)); for (sz i = 0; i != k; ++i) w[(i * 2) % c] = T(0); bool any = false; for (T v : w) any |= v != T(); if (any) patterns.push_back(w); }
        { std::vector<T> w(c); for (sz i = 0; i != c; ++i) w[i] = T(i + 1); patterns.push_back(w); std::reverse(w.begin(), w.end()); patterns.push_back(w); }
        { std::vector<T> w(c); for (sz i = 0; i != c; ++i) w[i] = (i % 2) ? T(3) : T(1); patterns.push_back(w); }
        { std::vector<T> w(c, T(1e-9L)); w[c / 2] = T(1); patterns.push_back(w); }
        for (sz pi = 0; pi != patterns.size(); ++pi)
        for (sz calls : {sz(0), sz(1), sz(1000), sz(1000000)})
        {
            std::string const id = tn + " B channels=" + std::to_string(c) + " pattern=" + std::to_string(pi) + " calls=" + std::to_string(calls);
            if (!r.want(id)) continue;
            r.eval();
            auto w = patterns[pi];
            T s = T(); for (T v : w) s += v;
            for (T& v : w) v /= s;
            std::vector<T> adj(c);
            for (sz i = 0; i != c; ++i) adj[i] = T((i * 7) % 5) * T(0.5);
            hep::multi_channel_chkpt<T> chk(T(0.001L), T(0.25));
            // the summary only looks at the last result
            hep::multi_channel_chkpt_with_rng<std::mt19937, T> full(std::mt19937(), T(0.001L), T(0.25));
            full.add(hep::multi_channel_result<T>(hep::plain_result<T>({}, calls, calls / 2, calls / 2, T(1), T(2)), adj, w), std::mt19937());
            std::ostringstream out;
            try { hep::multi_channel_summary(static_cast<hep::multi_channel_chkpt<T> const&>(full), out); }
            catch (std::exception const& e) { r.violate("summary-threw", id, id + " weights " + vf::join_dec(w) + ": exception " + e.what()); continue; }
            if (out.str().empty()) r.violate("summary-empty", id, id);
            if (out.str().find("wmin=") == std::string::npos) r.violate("summary-empty", id, id + ": no wmin line");
            r.outcome("summaries", out.str());
            r.distinct(vf::hash_str(id));
        }
    }
}

template <typename T>
static void for_type(report& r)
{
    std::string const tn = vf::type_name<T>();
    if (!r.want_prefix(tn)) return;
    if (r.want_prefix(tn + " A")) part_a<T>(r);
    if (r.want_prefix(tn + " B")) part_b<T>(r);
}

int main(int argc, char** argv)
{
    auto const a = vf::parse_args(argc, argv);
    report r(a);
    r.set_case_timeout(60);
    ::mkdir("build", 0777); ::mkdir("build/out", 0777); ::mkdir("build/out/tmp", 0777);
    g_dir = "build/out/tmp/c20_" + std::to_string(::getpid());
    ::mkdir(g_dir.c_str(), 0777);
#if VF_PART_ENABLED(0)
    if (a.nshards == 1 || a.shard % 3 == 0) for_type<float>(r);
#endif
#if VF_PART_ENABLED(1)
    if (a.nshards == 1 || a.shard % 3 == 1) for_type<double>(r);
#endif
#if VF_PART_ENABLED(2)
    if (a.nshards == 1 || a.shard % 3 == 2) for_type<long double>(r);
#endif
    vf::remove_tree(g_dir);
    return r.finish();
}
