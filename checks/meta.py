# Per-property metadata used by ./check: level, tiers (shards, deadline), how cases are enumerated
# and what is assumed.  The counts in the evidence come from the binaries, never from here.
META = {}

META["C16"] = {
    "level": "exploration",
    "tiers": {
        "quick": {"shards": 8, "deadline_s": 120,
                  "bounds": "all (total, world, rank) with total <= 4096, world <= 128; boundary lattice 2^k+-3 (k <= 63) x worlds {1..65, 2^j, 2^j+-1 (j <= 31)}; mpi_plain under the shim for world <= 12"},
        "thorough": {"shards": 16, "deadline_s": 900,
                     "bounds": "all (total, world, rank) with total <= 100000, world <= 256; the same lattice; mpi_plain under the shim for world <= 33 and three numeric types"},
    },
    "rule": "exhaustive nested enumeration of (total, world) with every rank; a pair is non-trivial when total is not divisible by world (the remainder handling is exercised); distinct = distinct (total, world) pairs",
    "assumptions": [
        "sub_calls is an inline expression in mpi_*.hpp; the sweep uses a literal copy that part B ties to the code by counting integrand evaluations per rank under the MPI shim",
        "unbounded integers are outside a bounded enumeration: covered are the stated ranges plus the 2^k boundary lattice up to 2^64-1",
    ],
}
