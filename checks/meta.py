# Per-property metadata used by ./check: level, tiers (shards, deadline), how cases are enumerated
# and what is assumed.  The counts in the evidence come from the binaries, never from here.
META = {}

META["C16"] = {
    "level": "exploration",
    "tiers": {
        "quick": {"shards": 8, "deadline_s": 120,
                  "bounds": "all (total, world, rank) with total <= 4096, world <= 128; boundary lattice 2^k+-3 (k <= 63) x worlds {1..65, 2^j, 2^j+-1 (j <= 31)}; mpi_plain / mpi_vegas / mpi_multi_channel under the shim for world <= 12, run on a sub-communicator whose ranks differ from the world ranks; mpi_plain's points in rank order against the serial stream; two iterations, an integrand with a cut (exact zeros) and a non-finite region, also a single-channel multi-channel integrand"},
        "thorough": {"shards": 16, "deadline_s": 900,
                     "bounds": "all (total, world, rank) with total <= 100000, world <= 256; the same lattice; the three mpi_* integrators under the shim for world <= 33 and three numeric types; mpi_plain with 2^31 + 3 calls on 4 ranks (the share is computed inside the integrators, in whatever integer type they use)"},
    },
    "rule": "exhaustive nested enumeration of (total, world) with every rank; a pair is non-trivial when total is not divisible by world (the remainder handling is exercised); distinct = distinct (total, world) pairs",
    "assumptions": [
        "the share of a rank is taken from the helpers themselves (distance to the next rank's start); sub_calls is an inline expression in mpi_*.hpp and is tied to the helpers by counting integrand evaluations per rank under the MPI shim (part B), without assuming which ranks take the extra call",
        "unbounded integers are outside a bounded enumeration: covered are the stated ranges plus the 2^k boundary lattice up to 2^64-1",
    ],
}

META["C09"] = {
    "level": "exploration",
    "tiers": {
        "quick": {"shards": 1, "deadline_s": 120,
                  "bounds": "all weight vectors of length 1..4 over {0,1,2,3,0.1,1/3,1e-3} x every critical canonical value x 3 types; vectors of 5..48 channels (equal, increasing, alternating zeros, one zero at every position); all 2^24 float canonical values for 4 weight vectors; critical values as channel draw inside multi_channel_iteration for all vectors over {0,1,2,3} and for weights that are tiny but not zero; channels of relative weight eps/2 at the end of the unit interval; totals that are subnormal or barely normal"},
        "thorough": {"shards": 1, "deadline_s": 900,
                     "bounds": "as quick, with the full 2^24 value sweep for 71 weight vectors"},
    },
    "rule": "nested enumeration of weight vectors x critical generator outputs (0, 2^-64 neighbours, every cumulative boundary +-3 steps on the 2^-64 lattice and +-{0,1,2,3,16,64,256,1024} steps on the lattice of T, largest value below 1); non-trivial = the vector contains a disabled channel; distinct = distinct (type, vector, raw output)",
    "assumptions": [
        "the canonical number for a raw 64-bit output is computed by calling std::generate_canonical on a copy of the engine (same standard function the library calls)",
        "a canonical number within 8 epsilon of a cumulative boundary may select either neighbour (closed vs half-open is left open by the property); a disabled channel is never accepted",
        "for weight vectors whose cumulative sums are exact in T whichever way they are computed (every partial sum exact by the error-free transformation, total a power of two) the intervals are known exactly and no tolerance is used",
    ],
}

META["C08"] = {
    "level": "model_checking",
    "tiers": {
        "quick": {"shards": 9, "deadline_s": 200,
                  "bounds": "C <= 4 channels; initial states: uniform default and all constructor-normalised vectors over {0,1,2,0.1}; (beta,min) in {1/4,1/2,1}x{0,0.01,0.9/C}; data alphabet {0,1,1e-3,1e3,1e-30,1e30}^C at depth 1, {0,1,1e-3,1e30}^C deeper; depth 2 for C<=3, depth 1 for C=4; 3 types; plus 5-iteration real runs and mpi_multi_channel runs under the MPI shim with 2 and 3 ranks"},
        "thorough": {"shards": 9, "deadline_s": 1500,
                     "bounds": "as quick with depth 3 for C<=3, depth 2 for C=4 (frontier capped at 400000 states per level, reported) and 8-iteration real runs"},
    },
    "rule": "breadth-first exploration of weight vectors reachable by refinement; states are merged by the bit pattern of the weights plus the checkpoint parameters; distinct_nontrivial counts distinct transitions that involve a disabled channel or a zero datum",
    "binding": "no separate model: every transition calls hep::multi_channel_refine_weights / the checkpoint constructors of the tree under test; traces_validated counts nothing here",
    "assumptions": [
        "the update-rule oracle (long double reference, 32 eps relative) is applied only where no product w*d^beta underflows below min()/eps or exceeds max()/16 in T; the invariants (finite, >= 0, sum 1, zero stays zero) are checked on every state",
        "channels <= 4, depth <= 3",
    ],
}

META["C07"] = {
    "level": "model_checking",
    "tiers": {
        "quick": {"shards": 15, "deadline_s": 200,
                  "bounds": "1-d grids with B in {2,3,4,5,8}; initial states: uniform, all strictly increasing eighth-lattice grids (B<=4), one grid with a 1e-6 bin; alpha in {0,0.5,1,1.5,3}; depth 1 with the full data alphabet {0,1,3,1e-30,1e30,denorm_min,max/(4B),max/2}^B (B<=4; patterns for B=5,8); depth 2 (B<=4) over {0,1,1e6}^B; vegas_icdf on every state for 0, 2^-64, k/B and neighbours, largest below 1 and exactly 1; 2-d vs 1-d differential; 10-iteration real runs on peaks of width 1e-1..1e-4; 6-iteration mpi_vegas runs under the MPI shim with 2 and 3 ranks; the uniform default grid and one refinement of it for every bin count 2..512; vegas_icdf weights in 5..100 dimensions"},
        "thorough": {"shards": 15, "deadline_s": 1500,
                     "bounds": "as quick with depth 3 for B<=5, depth 2 for B=8 (frontier capped at 300000 states per level, reported) and 20-iteration real runs"},
    },
    "rule": "breadth-first exploration of grids reachable by refinement, merged by the bit pattern of the boundaries (alpha is part of the state); distinct_nontrivial counts distinct transitions whose data contain a zero bin, plus distinct 2-d cases with different data per dimension and real runs",
    "binding": "no separate model: every transition calls hep::vegas_refine_pdf / hep::vegas_icdf / hep::vegas of the tree under test",
    "assumptions": [
        "the equal-share oracle (long double reference, 64 eps (B sum(imp) + imp_j/size_j)) is applied where every smoothed ratio is >= 1e-12 and the data sum does not overflow; validity of the grid (ends, finite, non-decreasing) is checked on every state",
        "bins <= 8 in the explicit-state part, <= 50 in real runs; dimensions <= 2",
    ],
}

META["C13"] = {
    "level": "exploration",
    "tiers": {
        "quick": {"shards": 3, "deadline_s": 200,
                  "bounds": "all sequences of 0..3 results over (calls,E,S) in {2,10,1000}x{-3,-1e-3,0,1/2,1,1e6}x{1e-6,1e-3,0.1,1,10,1e3} plus two empty results (10 calls without a hit, and zero calls), results with exactly one non-zero call, with 3e9 calls (counter sums beyond 2^32) and with fewer finite than non-zero calls (float: |E|<=1e3, S>=1e-3); all sequences of length 4 over the reduced alphabet {2,1000}x{-3,0,1,1e3}x{1e-3,1,1e3}+empty; every sequence also against its sorted permutation; 0..2 distributions (one 1-d with 2 bins, one 2-d with 2x2 bins); 3 types"},
        "thorough": {"shards": 3, "deadline_s": 1500,
                     "bounds": "as quick plus length 5 over the reduced alphabet and length 4 over a medium alphabet (41 results)"},
    },
    "rule": "nested enumeration of result sequences (every order of every multiset is enumerated, and each is compared with its sorted order); non-trivial = at least two results; distinct = distinct (type, sequence)",
    "assumptions": [
        "reference formulas in long double on the (value, variance) recovered from each input through the library's accessors; tolerance 32 eps scaled by the conditioning E^2/((N-1)S^2) of the conversion, inputs whose recovered variance is not positive or whose conditioning exceeds 1e-2/eps are skipped and counted",
        "chi^2/dof is compared only for sequences without empty results (positive variances, as in the property)",
    ],
}

META["C14"] = {
    "level": "exploration",
    "tiers": {
        "quick": {"shards": 3, "deadline_s": 200,
                  "bounds": "all sequences of length 1..7 over {+-1, +-h, +-2^12} (h = 2^-p (1+2^-10)); block sequences prefix (length <= 2) + k copies, k = 10..10^5 (10^4 for prefixes of length 2); twelve named families (two of them scaled to the bottom of the exponent range, one with a few values whose squares overflow) with N = 1..10^5; integral with/without distributions, a single-bin distribution and two multi-bin distributions (3 bins on [0,0.7] and 2 bins, fed interleaved subsequences); 3 types"},
        "thorough": {"shards": 3, "deadline_s": 1500,
                     "bounds": "as quick with sequences up to length 9, prefixes up to length 3 (k up to 10^5 for length 2), k and N up to 10^7"},
    },
    "rule": "nested enumeration of value sequences fed to hep::plain_iteration by a scripted integrand; a sequence is non-trivial when naive left-to-right summation in T is not exact for it (measured); distinct = distinct non-trivial sequences plus distinct block/family cases",
    "assumptions": [
        "exact oracle in 128-bit fixed point for the dyadic alphabet, __float128 for the named families",
        "bound 2 eps_T sum|v| (= 4u sum|v|); compensated summation guarantees (2u + O(N u^2)) sum|v|, N u <= 0.6 for the largest N and the coarsest type",
        "independence of N is shown for the enumerated sequences and families only",
    ],
}

META["C10"] = {
    "level": "exploration",
    "parts": 3,
    "tiers": {
        "quick": {"shards": 3, "deadline_s": 200,
                  "bounds": "3 types x 9 standard engines x {PLAIN, VEGAS, MULTI-CHANNEL (weight touched or not)} x d in {1,2,3} x calls in {0,1,2,5} x 4 integrand patterns x {default, user grid / weights with one disabled channel, weights with a single enabled channel}; stored generators over 3 iterations (3,0,5 calls), and for mpi_plain / mpi_vegas / mpi_multi_channel on every one of 3 ranks after each of 4 iterations (7,0,5,2 calls), the latter two called again in the same process with three dimensions; engine ranges R = 2..4096, 2^k, 2^k+-1 (k <= 64), offsets 0,1,5; every pattern of {0, 1/2, largest below 1} over the canonical numbers of two calls (scripted engine)"},
        "thorough": {"shards": 3, "deadline_s": 600, "bounds": "same as quick (the product is already complete)"},
    },
    "rule": "full product of configurations; the counting engine wrapper counts raw draws, the integrand snapshots the counter at every call; non-trivial = at least one call and a non-zero integrand pattern; distinct = distinct configurations",
    "assumptions": [
        "draws are counted by deriving from the standard engine and shadowing operator(); discard() is not counted",
        "libstdc++'s std::generate_canonical as installed (g++ 12.2)",
    ],
}

META["C05"] = {
    "level": "exploration",
    "parts": 3,
    "tiers": {
        "quick": {"shards": 3, "deadline_s": 300,
                  "bounds": "codec: every exponent (long double: every 64th plus the extremes and the middle) x mantissa in {0,1,all ones,0x55..,0xAA..,every single bit} x both signs through 9 writing sites; structure: one-field-at-a-time sweeps and the 2^8 product of the two smallest values over results 0..2, distributions 0..2, bins 1..3x1..2, channels {1,2,3,7,9,10,11,12} (user weights, a weight raised to the floor, uniform default), dimensions 1..4, grid bins 2..3, 10 names (empty, blanks, leading/trailing blanks, tab, '#x'), counters {0,1,2^32,2^64-1}, 9 engines advanced by {0,1,7,1000}; 3 types"},
        "thorough": {"shards": 16, "deadline_s": 3000,
                     "bounds": "as quick with every long double exponent, plus every finite float bit pattern (2^32 - 2^24) through vegas_pdf, mc_result, vegas_result and multi_channel_result"},
    },
    "rule": "enumeration of bit patterns / shapes; a value is written through the real serialize() member and read back through the real stream constructor; distinct = distinct values (by bits) plus distinct structural configurations; non-trivial = every value whose decimal expansion needs rounding (all but a handful) and every configuration with at least one distribution or adaptive state",
    "assumptions": [
        "finite values only; names without newline",
        "the stored generators other than the last are compared through the re-serialised text (they have no public accessor)",
        "a fresh VEGAS checkpoint whose dimension was never set cannot be serialised at all and is not part of the alphabet",
    ],
}

META["C02"] = {
    "level": "exploration",
    "parts": 3,
    "tiers": {
        "quick": {"shards": 3, "deadline_s": 300,
                  "bounds": "26 configurations (PLAIN d=1,2,3; VEGAS uniform and grid [0,1/4,1] d=1,2,3; MULTI-CHANNEL 2 channels / 3 channels with one disabled and jacobian 2 / 2 channels with a region of vanishing densities (infinite weight), d=1,2; each with and without a 2-bin distribution) x N in {0,1,2,3,4,5} x every value sequence over {0,1,-3/2,1/4,3,NaN}; random numbers exhaustive over {1/8,3/8,5/8,7/8} when <= 4 numbers are drawn, one pattern per sequence otherwise; 3-iteration runs through plain/vegas/multi_channel with unequal calls; 3 types"},
        "thorough": {"shards": 3, "deadline_s": 1800, "bounds": "as quick with N = 7 in addition"},
    },
    "rule": "nested enumeration of value sequences and random-number patterns; the integrand logs (f, w, bin/channel, densities) per call and the reference model recomputes every reported quantity from that log; non-trivial = at least two non-zero values; distinct = distinct (configuration, sequence, random pattern)",
    "assumptions": [
        "PLAIN and VEGAS first iterations use dyadic values, weights and grids, so every sum is exact and compared bit for bit; multi-channel and adapted iterations within 16-32 eps of the sum of magnitudes",
        "variance is compared for N >= 2 only (documented domain)",
    ],
}

META["C06"] = {
    "level": "fault_enumeration",
    "parts": 3,
    "tiers": {
        "quick": {"shards": 3, "deadline_s": 300,
                  "bounds": "PLAIN (d=2), VEGAS (4 bins, d=2, alpha 1.25), MULTI-CHANNEL (3 channels, beta 1/2, min 0.01); 3 adaptive iterations of 6 calls; every non-empty subset of the 6 points of one iteration (x3 iterations); every assignment of {NaN,+inf,-inf, and - for the integrand's value - the largest finite number, a fault where its product with the weight overflows} (weight faults: also zero densities, and - with user weights that disable a channel - a NaN density of the disabled channel only) for subsets of size <= 4, uniform kinds above; fault from the integrand value, the value handed to projector.add, or the multi-channel weight; with and without distributions (one 1-d with 3 bins and one 2-d with 2x2 bins); 3 types"},
        "thorough": {"shards": 3, "deadline_s": 1800, "bounds": "as quick with 8 sampled points per iteration (every non-empty subset of 8)"},
    },
    "rule": "every fault subset x kind assignment is run on the real integrators and compared with its pair (same script, zero returned at the faulted points) on the canonical field description with non_zero_calls and bin counters masked; non-trivial = every case (at least one fault); distinct = distinct (configuration, iteration, subset, kinds)",
    "assumptions": [
        "finite values are O(1) so that squares cannot overflow; overflow of a finite value's square is outside the property",
        "which poisoned points are faults is observed (the integrand looks at point.weight() there), not assumed: the pair returns zero exactly where the product of value and weight was non-finite; a NaN in the density slot of a disabled channel is either such a fault or must be ignored completely (documentation: 'will be ignored'), i.e. the run must equal one that never saw it; the variance-weighted combination of every prefix of the results (integrated and per bin) must equal the pair's and be finite when the pair's is",
        "bin counters of distributions are masked in the comparison (the property speaks of counters aside); non_zero_calls of the faulted iteration must exceed the pair's by exactly the number of faulted points whose value is non-zero, finite_calls must be equal",
    ],
}

META["C11"] = {
    "level": "exploration",
    "parts": 3,
    "tiers": {
        "quick": {"shards": 3, "deadline_s": 300,
                  "bounds": "bins_x in {1,2,3,5} x bins_y in {1,2,3} x 7 ranges ([0,1],[-1,1],[-3,-1],[2,5],[0,1e-6],[-1e6,1e6],[0.1,0.7]); every (x,y) pair from: every edge and its two neighbours, every mid point, below/above by one span, far outside (1e10 spans, +-1e19, 1e30, +-max), quotient just above 2^64, +-inf, NaN; three distributions filled in the same call (1-d in x, 2-d in (x,y), 1-d in y); PLAIN, VEGAS (grid [0,1/8,1/4,1]) and MULTI-CHANNEL (weights 1/2,1/8,3/8, jacobian 1+y); 9-call differential runs per bin; part C: the differential runs through mpi_plain / mpi_vegas / mpi_multi_channel with 2 and 3 ranks under the MPI environment model (2 and 4 bins, 6 value patterns); 3 types"},
        "thorough": {"shards": 3, "deadline_s": 900, "bounds": "same as quick (the enumeration is complete at this bound)"},
    },
    "rule": "nested enumeration of binnings x coordinate pairs, one scripted projection per single-call iteration; reference bin = floor((x-min)/size) in __float128 on the stored parameters; non-trivial = every case; distinct = distinct (configuration, x, y)",
    "assumptions": [
        "a coordinate whose exact quotient is within 2 eps max(q,1) of an integer may be in either adjacent bin (or outside, at the range ends)",
        "bin contents within 8 eps of value*weight/area, the weight being what point.weight() returned to the integrand",
    ],
}

META["C15"] = {
    "level": "model_checking",
    "parts": 9,
    "tiers": {
        "quick": {"shards": 6, "parts_used": [0, 1, 2, 3, 4, 5], "deadline_s": 400,
                  "bounds": "operations run(1), run(2), reload, rollback(k) for every k in 0..n+1 and k in {2^32, 2^32+n, 2^63+1}; at most 4 iterations (calls 5,3,7,4); BFS to a fixed point on canonical states plus every history of depth <= 4 without state merging; PLAIN, VEGAS default / user grid, MULTI-CHANNEL default / user weights with a disabled channel / the same with one weight below the minimum weight; engines mt19937, minstd_rand, ranlux48, knuth_b; 3 types; built with _GLIBCXX_ASSERTIONS and the library's own asserts"},
        "thorough": {"shards": 9, "deadline_s": 3000, "bounds": "as quick with histories of depth <= 5 and all nine standard engines"},
    },
    "rule": "explicit-state BFS over real checkpoint objects (copied, not replayed) with canonical state = serialised text + 'read back from text while holding results' flag, and a stateless DFS over all operation histories to the depth bound; distinct_nontrivial = distinct histories executed by the DFS; reference model = golden texts of the uninterrupted run",
    "binding": "no separate model: every transition calls the real rollback / integrators / stream constructors; the golden texts come from the same integrators run without interruption",
    "assumptions": [
        "a crash, failed assertion or sanitizer report of the check binary is reported as a violation",
        "the canonical state of the BFS assumes that text plus the flag determine the future; the DFS without merging guards that assumption up to the depth bound",
    ],
}

META["C03"] = {
    "level": "model_checking",
    "parts": 9,
    "tiers": {
        "quick": {"shards": 9, "deadline_s": 500,
                  "bounds": "calls [7,12,5,9]: every composition into segments (all 8 sets of interruption points) x every assignment of {in memory, text round trip, file written by the built-in callback, the same with the callback instantiated for the checkpoint's base type (first two segments)} to the segments; PLAIN, VEGAS default / user grid, MULTI-CHANNEL default / user weights with a disabled channel; distributions {none, 1-d 'a b', 1-d empty name, 2-d ' lead', two (one with trailing blank, one empty 2-d)}; without target and with a target reached at iteration 2; 9 engines x 3 types"},
        "thorough": {"shards": 9, "deadline_s": 3000, "bounds": "as quick with calls [7,12,5,9,6] (16 sets of interruption points)"},
    },
    "rule": "stateless enumeration of segment paths on real checkpoints; after every segment the checkpoint text must equal the text G_k of the uninterrupted run (confluence); states = distinct texts observed per depth (one per depth when the property holds), transitions = executed segments; distinct_nontrivial = distinct complete paths",
    "binding": "no separate model: every segment runs the real integrators, serialize(), the stream constructors and the built-in callback writing a real file",
    "assumptions": [
        "an interruption is an externally caused stop strictly before the iteration at which the run ends by itself (a run resumed after its natural end would perform one more iteration - the stop rule is only evaluated after an iteration)",
        "the checkpoint file is written below /verif/build/out/tmp",
    ],
}

META["C19"] = {
    "level": "model_checking",
    "parts": 3,
    "tiers": {
        "quick": {"shards": 3, "deadline_s": 300,
                  "bounds": "iteration counts 1..4 (calls [3],[2,4],[3,1,4],[2,3,2,4]); VEGAS d=2 with default grids of 2..5 bins and a user grid, alpha in {0,0.5,1.5,4/3}; MULTI-CHANNEL default / unnormalised user weights / user weights with a zero, beta in {1/4,1}, min in {0,0.05}; execution: uninterrupted, resumed from text before the first iteration and at every split point, after another run and a rollback to the start, MPI shim with P in {1,2,3}, and a serial run continued under MPI (P in {1,3}) from text at every split point; multi-channel integrands also created with a distribution; 3 types"},
        "thorough": {"shards": 3, "deadline_s": 900, "bounds": "as quick with 5 iterations (calls [2,1,3,2,4]) and 4 ranks"},
    },
    "rule": "every configuration x execution mode is run on the real integrators with a scripted engine and a logging integrand; states = results whose recorded state was checked against the points actually seen, transitions = refinement steps checked against the library's refine function applied to the recorded data; distinct_nontrivial = distinct cases with at least two iterations",
    "binding": "the oracle functions are the library's own vegas_refine_pdf / multi_channel_refine_weights / vegas_icdf / discrete_distribution (their own correctness is C07/C08/C09's subject) applied to the arguments the property prescribes; the MPI runs use the re-execution environment of harness/mpienv.hpp",
    "assumptions": [
        "bitwise comparison: both sides are the same library function on arguments that must be equal",
    ],
}

META["C12"] = {
    "level": "model_checking",
    "parts": 3,
    "tiers": {
        "quick": {"shards": 3, "deadline_s": 300,
                  "bounds": "A: every calls list of length 0..4 over {2,5,0} x user callback answering false at every position or never x start from an empty or a 2-result checkpoint x serial / MPI shim with 1..3 ranks (a third of the lists); B: built-in callback, 4 modes x targets {0,1e-3,0.05,0.3,1} and +-1% around every relative error the run actually reaches x integrands {0, 1, +-1 alternating, NaN, NaN sometimes, linear, narrow support (iterations without any hit), linear at a tiny scale} x 5 iterations, serial and MPI shim with 2 ranks; PLAIN, VEGAS, MULTI-CHANNEL; 3 types"},
        "thorough": {"shards": 3, "deadline_s": 900, "bounds": "as quick with calls lists up to length 5 in part A"},
    },
    "rule": "every environment answer sequence of the callback (the position at which it says stop) is enumerated; states = runs judged, transitions = callback invocations judged; distinct_nontrivial = distinct cases with at least two requested iterations (A) plus all built-in cases (B)",
    "binding": "the integrators, callbacks and mpi_callback of the tree under test are executed; the reference stop index is computed in long double from the results of the same run with a never-stopping user callback",
    "assumptions": [
        "a combined relative error within 1e-5 relative of the target, or an undefined combination (zero variance, no contributing result) with a positive target, leaves the decision open and both answers are accepted; with target zero the run must always perform all iterations",
    ],
}

META["C01"] = {
    "level": "exploration",
    "parts": 3,
    "tiers": {
        "quick": {"shards": 3, "deadline_s": 400,
                  "bounds": "PLAIN d<=3, lattices 1,2,4,6 per dimension; VEGAS B in {2,3,4,5,8}: uniform, all strictly increasing eighth-lattice grids (B<=4) and all grids reached by BFS over real adaptation (4 adapting integrands x alpha in {0,0.5,1.5,3}, depth 3), lattices B x {1,2,3}, d=1 all grids, d=2 products of a subset; MULTI-CHANNEL C<=3 channels with splits 1/4,1/2,3/4: every composition of 8 into weights incl. zeros (sentinel density 1e30 in disabled channels), normalised / through the checkpoint constructor / unnormalised x3 / with an integrand that reads point.weight() itself / with a channel map that keeps state between its two requests / with a map that fills the densities together with the coordinates, jacobian in {1,2,1/4,1+y}, d<=2, lattice 12^d x 8; adapted weights reached by BFS over real refinement (3 integrands x beta x min, depth 3) in stratified form; all multilinear integrands over {1, y, 2-3y, -1+4y}; 3 types"},
        "thorough": {"shards": 3, "deadline_s": 1800, "bounds": "as quick with adaptation depth 5 (grids) / 4 (weights), d=3 VEGAS products and eighth-split channel maps on an 840-point lattice"},
    },
    "rule": "nested enumeration of (grid | weight vector, lattice, integrand); the lattice engine makes one iteration visit every cell of the discretised cube (and every eighth of the channel-selection interval) exactly once; non-trivial = non-uniform grid, zero weight or non-unit jacobian; distinct = distinct cases; states/transitions count the adaptation BFS that produces the reachable grids and weights",
    "assumptions": [
        "integrands are multilinear (with the jacobian 1+y: constant in that coordinate) and channel maps piecewise linear, the class the composite midpoint rule integrates exactly",
        "tolerance 64 (d+B) eps x magnitude of the integrand; lattice midpoints that are not dyadic are rounded to 2^-64",
    ],
}

META["C17"] = {
    "level": "exploration",
    "parts": 3,
    "tiers": {
        "quick": {"shards": 3, "deadline_s": 400,
                  "bounds": "every sequence of 3 calls over the per-call alphabet {canonical number 0, 1/4, largest below 1 (multi-channel: coordinate in {0, largest} x channel draw in {0,1/4,largest})} x {integrand returns 0, 2, NaN} x {requests the weight itself, does not}: 18^3 (36^3) sequences; PLAIN, VEGAS uniform and grid [0,1/8,1/2,1], MULTI-CHANNEL with weights (1,1,1),(0,1,1),(1,0,1),(1,1,0),(0,0,1), and with a distribution (weight requested through the projector) for three of them; 3 types; ASan+UBSan+_GLIBCXX_ASSERTIONS"},
        "thorough": {"shards": 3, "deadline_s": 1800, "bounds": "as quick with sequences of 4 calls for PLAIN and VEGAS (18^4)"},
    },
    "rule": "exhaustive enumeration of call sequences; the instrumented integrand and map record every invocation with arguments, buffer addresses and contents; the protocol is checked on the resulting event log; distinct = distinct (configuration, sequence); non-trivial = every sequence (each mixes at least the zero / non-zero / weight-request dimensions)",
    "assumptions": [
        "buffer identity is compared by address within one iteration only",
        "sequences of 3 calls; one dimension",
    ],
}

META["C20"] = {
    "level": "exploration",
    "parts": 3,
    "tiers": {
        "quick": {"shards": 3, "deadline_s": 400,
                  "bounds": "4 callback modes x {PLAIN, VEGAS, MULTI-CHANNEL with 1,2,3,7,12,13,14,30 channels x 4 weight patterns (equal, all but one at the floor, alternating disabled, increasing)} x integrands {0, 1, NaN sometimes, linear} x targets {0, 0.12} x 3 iterations (also with a zero-call iteration); MPI shim with 3 ranks x 4 modes x targets {0, 0.12}; multi_channel_summary directly for 1..48 channels x weight patterns (equal, one dominant, k disabled, increasing/decreasing, two groups, one huge) x calls {0,1,1000,10^6}; 3 types; ASan+UBSan+_GLIBCXX_ASSERTIONS, 60 s limit per case"},
        "thorough": {"shards": 3, "deadline_s": 900, "bounds": "same as quick (the enumeration is complete at this bound)"},
    },
    "rule": "full product of configurations; each configuration is run once per mode and the modes are compared with the silent run (final text and the text handed to every callback invocation); distinct = distinct configurations; non-trivial = every configuration",
    "assumptions": [
        "a crash, exception, sanitizer report or a case exceeding 60 s is a violation",
        "std::cout is captured by replacing its stream buffer; files are written below /verif/build/out/tmp",
    ],
}

META["C04"] = {
    "level": "model_checking",
    "parts": 6,
    "tiers": {
        "quick": {"shards": 6, "deadline_s": 500,
                  "bounds": "mpi_plain / mpi_vegas / mpi_multi_channel (user weights with a disabled channel; plus, for a subset, one random number mapped to three coordinates and a single-channel integrand) x calls lists [0],[1],[2],[3],[5],[7,3],[4,4,4],[2,0,5],[1,1,1,1],[33],[64,31] x {dyadic integrand (exact sums), smooth integrand, smooth integrand with non-finite values in some cells} x {no distribution, two distributions (1-d with 3 bins, 2-d with 2x2)} x {no target (silent callback), target 0.35 (verbose callback)}; half of the configurations on a sub-communicator whose ranks differ from the world ranks; worlds 1,2,3 with every reduction order of every collective (P! left folds + tree, pruned by distinct reduced bytes); worlds 4,5,8,16,33 with ascending / descending / tree order; engines script, mt19937, ranlux24, minstd_rand; 3 types"},
        "thorough": {"shards": 6, "deadline_s": 3000, "bounds": "as quick with every reduction order also for 4 ranks and every world size 5..33 in the three canonical orders"},
    },
    "rule": "stateless exploration of the MPI environment's choices: for each collective the environment chooses the order in which the ranks' contributions are combined; ranks are deterministic functions of the results received, so orders with identical reduced bytes have identical futures and one representative is continued; states = complete executions checked, transitions = rank-set executions (one per explored prefix); traces_validated_against_impl = complete executions whose per-rank logs were compared with the serial iteration of the tree under test",
    "binding": "ranks run the real mpi_* integrators against harness/mpishim/mpi.h; the environment model (a collective completes when all ranks arrive with the same count/datatype; result = element-wise sum in an environment-chosen order, same bytes to every rank) is ~100 lines in harness/mpienv.hpp; the serial side of every comparison is the library's own *_iteration",
    "assumptions": [
        "ranks are executed one after another in one address space by re-execution (the library has no global mutable state); a rank returning while another waits, or different count/datatype in the same collective, is reported as the hang it would be under a real MPI",
        "only MPI_Allreduce with MPI_SUM, MPI_Comm_rank and MPI_Comm_size are modelled (all the library uses)",
        "sums agree with the serial ones within (P+4) eps x sum of magnitudes; bit-identical for PLAIN and first VEGAS iterations of the dyadic integrand",
    ],
}

META["C18"] = {
    "level": "fault_enumeration",
    "technique": "exhaustive crash-point enumeration on the real write path (every logged file-system operation x every byte prefix of the write in flight, validated against real kills) and, for several MPI processes, explicit-state search over all interleavings of the ranks' recorded file operations on an inode-level directory model",
    "tiers": {
        "quick": {"shards": 3, "deadline_s": 400,
                  "bounds": "PLAIN (about 300 byte checkpoints), VEGAS 128 bins x 4 dimensions (about 13 kB per result, several write calls per checkpoint), MULTI-CHANNEL 30 channels; 3 iterations; silent_and_write_chkpt and verbose_and_write_chkpt; file absent or holding an older (empty) checkpoint, with and without a partial temporary file left behind by an earlier killed run, with the first or second rename of the run failing (injected ENAMETOOLONG), with the callback instantiated for the checkpoint's base type, and with a checkpoint file named 'run.tmp'; every position in the operation log (failed calls included) and every byte prefix of every write; real-kill validation at every log position with byte prefixes {0, 1, middle, last}; family G: mpi_callback with 2 and 3 ranks under the MPI environment model (PLAIN; for 2 ranks also 30-channel MULTI-CHANNEL and VEGAS), both writing modes, file absent or pre-existing: every interleaving of the ranks' file operations within an iteration on an inode-level directory model (states hashed), every state judged, plus the first byte and half of every write in flight; 3 types"},
        "thorough": {"shards": 3, "deadline_s": 1800, "bounds": "as quick with real-kill validation at every 97th byte of every write"},
    },
    "rule": "fault enumeration over crash points: (operation index, bytes of the write in flight); byte prefixes of a write to a file other than the checkpoint file leave the checkpoint file unchanged and are counted once per operation; distinct = distinct crash points whose checkpoint-file content was judged; non-trivial = every crash point",
    "assumptions": [
        "kill model of the property: every completed system call persists, the call in flight may be cut at any byte; power loss (unsynced data disappearing) is not modelled",
        "family G: between two collectives the ranks are unordered, file operations of different iterations cannot overlap (the next callback lies behind the next MPI_Allreduce); a rank's operation sequence does not depend on what the other ranks do to the directory (true for open-truncate/write/close/rename sequences; a rank that reads the directory would need a re-run per interleaving); byte prefixes of a write in flight: first byte and half of the buffer",
        "the interposer sees fopen/fopen64/open/open64/openat/creat, write/writev/pwrite (each with the position it writes at), fclose/close, rename/renameat, unlink/remove, truncate/ftruncate, fsync/fdatasync and getpid (owned by the harness while a scenario runs); C stdio streams opened by the code under test get custom I/O functions (fopencookie) so that glibc's buffering is kept while every flush goes through the logged write; failed calls are logged as kill points without effect; directory descriptors are tracked; a run whose real directory differs from the state predicted from the log ends with a harness error (exit 2), never a silent pass",
    ],
}
