#!/usr/bin/env python3
"""Regenerates MANIFEST.json from checks/meta.py (claimed checks = those with a checks/<id>.cpp)."""
import json, os, sys
HERE = os.path.dirname(os.path.abspath(__file__))
sys.path.insert(0, os.path.join(HERE, "checks"))
from meta import META
props = [json.loads(l) for l in open(os.path.join(HERE, "properties.jsonl"))]
checks, na = [], []
for p in props:
    pid = p["id"]
    m = META.get(pid)
    if m is None or not os.path.exists(os.path.join(HERE, "checks", pid.lower() + ".cpp")):
        na.append({"property_id": pid, "reason": "check not built yet in this round (design in DESIGN.md section 4); not a statement that the technique cannot apply"})
        continue
    checks.append({
        "property_id": pid,
        "quick_cmd": "./check %s --tier quick" % pid,
        "thorough_cmd": "./check %s --tier thorough" % pid,
        "evidence_file": "evidence/%s.json" % pid,
        "replay_cmd_template": "./check %s --replay {path}" % pid,
        "engine": m.get("engine", "bounded exhaustive enumeration on the real templates"),
        "level_claimed": {"category": m["level"], "text": m.get("level_text", m["rule"]),
                          "design_ref": "DESIGN.md section 4, " + pid},
        "level_note": " ".join(m["assumptions"]),
        "technique": m.get("technique", "bounded exhaustive enumeration of inputs/histories on the real code against a reference model"),
    })
manifest = {
    "version": 1,
    "setup_cmd": "make -C /verif -j16 all",
    "hooks": {
        "guard": "HEP_MC_VERIF",
        "enable": "no source hooks are needed: every seam is a template parameter (engine, integrand, callback), the include path (MPI shim) or link-time interposition (file system calls); checks compile /repo/include with -DHEP_MC_VERIF for uniformity",
        "baseline_off_cmd": "meson test -C /repo/_build",
        "source_commits": [],
        "add_only": True,
    },
    "engines": [
        {"name": "E1 sequence/state explorer", "path": "checks/c03.cpp checks/c07.cpp checks/c08.cpp checks/c12.cpp checks/c15.cpp checks/c19.cpp checks/c01.cpp", "serves_properties": ["C01", "C03", "C07", "C08", "C12", "C15", "C19"], "kind_free_text": "explicit-state BFS / stateless DFS over operation histories on real (copyable) objects, canonical state = checkpoint text / grid bits / weight bits; the loops live inside each check because state type and alphabet differ"},
        {"name": "E2 MPI environment explorer", "path": "harness/mpienv.hpp", "serves_properties": ["C04", "C16", "C19", "C12", "C20", "C07", "C08"], "kind_free_text": "stateless exploration by re-execution: all reduction orders of every collective, hang detection, sub-communicator with ranks different from the world ranks"},
        {"name": "E3 crash-point enumerator", "path": "harness/fslog.hpp", "serves_properties": ["C18"], "kind_free_text": "interposed file system calls; every prefix of the operation log x every byte prefix of the write in flight; injected rename failures; real-kill validation"},
        {"name": "scripted engines", "path": "harness/engines.hpp", "serves_properties": ["C01", "C02", "C06", "C09", "C10", "C11", "C17"], "kind_free_text": "scripted / lattice / variable-range / counting random engines that make generator outputs an enumerable input"},
    ],
    "checks": checks,
    "not_applicable": na,
    "notes": "All checks run the real hep-mc templates from /repo's working tree; see DESIGN.md.",
}
json.dump(manifest, open(os.path.join(HERE, "MANIFEST.json"), "w"), indent=1)
print("claimed:", [c["property_id"] for c in checks])
