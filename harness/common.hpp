// Shared plumbing for the check binaries: argument parsing, case filtering for replay, violation
// collection, distinct-case counting, JSON summary.  No dependency on hep-mc.
#ifndef VERIF_COMMON_HPP
#define VERIF_COMMON_HPP

#include <chrono>
#include <cinttypes>
#include <csignal>
#include <cstdint>
#include <cstdio>
#include <cstdlib>
#include <cstring>
#include <functional>
#include <limits>
#include <map>
#include <set>
#include <sstream>
#include <string>
#include <dirent.h>
#include <unistd.h>
#include <unordered_set>
#include <vector>

// A check can be compiled in parts (-DVF_PART=k, one numeric type each) so that the parts build in
// parallel; without the define everything is compiled into one binary.
#ifdef VF_PART
#define VF_PART_ENABLED(k) (VF_PART == (k))
#else
#define VF_PART_ENABLED(k) 1
#endif

namespace vf
{

// removes a scratch directory with the plain files in it
inline void remove_tree(std::string const& dir)
{
    if (DIR* d = ::opendir(dir.c_str()))
    {
        while (dirent* e = ::readdir(d))
        {
            std::string const n = e->d_name;
            if (n != "." && n != "..") ::unlink((dir + "/" + n).c_str());
        }
        ::closedir(d);
    }
    ::rmdir(dir.c_str());
}

// ------------------------------------------------------------------------------------------------
// small helpers
// ------------------------------------------------------------------------------------------------

inline std::uint64_t fnv1a(void const* data, std::size_t n, std::uint64_t h = 1469598103934665603ULL)
{
    auto const* p = static_cast<unsigned char const*>(data);
    for (std::size_t i = 0; i != n; ++i)
    {
        h ^= p[i];
        h *= 1099511628211ULL;
    }
    return h;
}

inline std::uint64_t hash_str(std::string const& s, std::uint64_t h = 1469598103934665603ULL)
{
    return fnv1a(s.data(), s.size(), h);
}

inline std::string json_escape(std::string const& s)
{
    std::string r;
    r.reserve(s.size() + 2);
    for (unsigned char c : s)
    {
        switch (c)
        {
        case '"': r += "\\\""; break;
        case '\\': r += "\\\\"; break;
        case '\n': r += "\\n"; break;
        case '\t': r += "\\t"; break;
        case '\r': r += "\\r"; break;
        default:
            if (c < 0x20 || c >= 0x7f)
            {
                char buf[8];
                std::snprintf(buf, sizeof buf, "\\u%04x", c);
                r += buf;
            }
            else
            {
                r += static_cast<char>(c);
            }
        }
    }
    return r;
}

// number of value bytes of a floating point type (x87 long double carries 10, padded to 16)
template <typename T> struct value_bytes { static constexpr std::size_t n = sizeof(T); };
template <> struct value_bytes<long double> { static constexpr std::size_t n = 10; };

template <typename T>
inline bool same_bits(T a, T b)
{
    return std::memcmp(&a, &b, value_bytes<T>::n) == 0;
}

template <typename T>
inline std::uint64_t hash_val(T a, std::uint64_t h = 1469598103934665603ULL)
{
    return fnv1a(&a, value_bytes<T>::n, h);
}

template <typename T> inline char const* type_name();
template <> inline char const* type_name<float>() { return "float"; }
template <> inline char const* type_name<double>() { return "double"; }
template <> inline char const* type_name<long double>() { return "long double"; }

// prints a floating point number so that it can be read back exactly (hex float)
template <typename T>
inline std::string hexf(T v)
{
    char buf[80];
    std::snprintf(buf, sizeof buf, "%La", static_cast<long double>(v));
    return buf;
}

template <typename T>
inline std::string dec(T v)
{
    char buf[80];
    std::snprintf(buf, sizeof buf, "%.*Lg", std::numeric_limits<T>::max_digits10,
        static_cast<long double>(v));
    return buf;
}

template <typename V>
inline std::string join(V const& v, char const* sep = ",")
{
    std::ostringstream o;
    bool first = true;
    for (auto const& e : v)
    {
        if (!first) o << sep;
        first = false;
        o << e;
    }
    return o.str();
}

template <typename T>
inline std::string join_dec(std::vector<T> const& v, char const* sep = ",")
{
    std::string r;
    for (std::size_t i = 0; i != v.size(); ++i)
    {
        if (i) r += sep;
        r += dec(v[i]);
    }
    return r;
}

// user callback that never ends a run (so that the built-in stop rule does not interfere)
struct never_stop
{
    template <typename C>
    bool operator()(C const&) const { return true; }
};

// ------------------------------------------------------------------------------------------------
// arguments
// ------------------------------------------------------------------------------------------------

struct args
{
    std::string tier = "quick";
    int shard = 0;
    int nshards = 1;
    std::string replay_case;     // when non-empty only the case with this id is executed
    bool replay = false;
    std::string out;             // JSON summary file
    double deadline_s = 1e9;     // soft deadline; when hit the run ends with exhaustive=false
    bool thorough() const { return tier == "thorough"; }
};

inline args parse_args(int argc, char** argv)
{
    args a;
    for (int i = 1; i < argc; ++i)
    {
        std::string s = argv[i];
        auto next = [&]() -> std::string {
            if (i + 1 >= argc) { std::fprintf(stderr, "missing value for %s\n", s.c_str()); std::exit(2); }
            return argv[++i];
        };
        if (s == "--tier") a.tier = next();
        else if (s == "--shard") { std::string v = next(); std::sscanf(v.c_str(), "%d/%d", &a.shard, &a.nshards); }
        else if (s == "--replay-case") { a.replay_case = next(); a.replay = true; }
        else if (s == "--out") a.out = next();
        else if (s == "--deadline") a.deadline_s = std::atof(next().c_str());
        else { std::fprintf(stderr, "unknown argument %s\n", s.c_str()); std::exit(2); }
    }
    if (a.tier != "quick" && a.tier != "thorough") { std::fprintf(stderr, "bad tier\n"); std::exit(2); }
    return a;
}

// ------------------------------------------------------------------------------------------------
// report
// ------------------------------------------------------------------------------------------------

struct violation
{
    std::string key;      // class of the failing input; matched against known_findings.txt
    std::string case_id;  // what --replay-case needs to re-run exactly this case
    std::string detail;   // human readable: observed vs expected
};

// the id of the case that is being executed right now; printed by the crash handler
inline char g_current_case[4096] = "(none)";

inline void crash_handler(int sig)
{
    char const* msg = sig == SIGALRM ? "\nHANG (per-case time limit exceeded) while executing case: "
                                     : "\nCRASH signal while executing case: ";
    (void)!write(2, msg, std::strlen(msg));
    (void)!write(2, g_current_case, std::strlen(g_current_case));
    (void)!write(2, "\n", 1);
    std::signal(sig, SIG_DFL);
    std::raise(sig);
}

class report
{
public:
    explicit report(args const& a)
        : args_(a)
        , start_(std::chrono::steady_clock::now())
    {
        std::signal(SIGSEGV, crash_handler);
        std::signal(SIGABRT, crash_handler);
        std::signal(SIGFPE, crash_handler);
        std::signal(SIGBUS, crash_handler);
        std::signal(SIGALRM, crash_handler);
    }

    // every case must finish within this many seconds (0 = no limit); a case that does not is
    // reported like a crash, with its id
    void set_case_timeout(unsigned seconds) { case_timeout_ = seconds; }

    args const& a() const { return args_; }

    // Returns true if the case with this id has to be executed (always, unless replaying).  Also
    // remembers the id for the crash handler.
    bool want(std::string const& id)
    {
        if (args_.replay && id != args_.replay_case)
        {
            return false;
        }
        std::snprintf(g_current_case, sizeof g_current_case, "%s", id.c_str());
        if (case_timeout_) alarm(case_timeout_);
        return true;
    }

    // in replay mode whole groups can be skipped when the wanted id does not start with `prefix`
    bool want_prefix(std::string const& prefix) const
    {
        return !args_.replay || args_.replay_case.compare(0, prefix.size(), prefix) == 0;
    }

    void eval(std::uint64_t n = 1) { evaluations_ += n; }

    // counts a distinct, non-trivial case (by hash)
    void distinct(std::uint64_t h) { distinct_.insert(h); }
    void distinct(std::string const& s) { distinct_.insert(hash_str(s)); }

    // distinct observed outcomes (vacuity indicator), by named family
    void outcome(std::string const& family, std::uint64_t h) { outcomes_[family].insert(h); }
    void outcome(std::string const& family, std::string const& s) { outcomes_[family].insert(hash_str(s)); }

    void count(std::string const& name, std::uint64_t n = 1) { counters_[name] += n; }
    void set_counter(std::string const& name, std::uint64_t n) { counters_[name] = n; }
    std::uint64_t counter(std::string const& name) const
    {
        auto it = counters_.find(name);
        return it == counters_.end() ? 0 : it->second;
    }

    void state(std::uint64_t n = 1) { states_ += n; }
    void transition(std::uint64_t n = 1) { transitions_ += n; }
    void validated(std::uint64_t n = 1) { validated_ += n; }

    void sample(std::string const& s)
    {
        if (samples_.size() < 6) samples_.push_back(s);
    }
    bool wants_sample() const { return samples_.size() < 6; }

    void cap(std::string const& what)
    {
        exhaustive_ = false;
        if (caps_.size() < 20) caps_.insert(what);
    }

    void note(std::string const& s) { notes_.push_back(s); }

    void violate(std::string const& key, std::string const& case_id, std::string const& detail)
    {
        ++violation_count_;
        auto& n = per_key_[key];
        ++n;
        if (n <= 3 && violations_.size() < 60)
        {
            violations_.push_back({key, case_id, detail});
        }
    }

    std::uint64_t violation_count() const { return violation_count_; }

    bool deadline_hit()
    {
        if (deadline_flag_) return true;
        double const s = std::chrono::duration<double>(std::chrono::steady_clock::now() - start_).count();
        if (s > args_.deadline_s)
        {
            deadline_flag_ = true;
            cap("deadline of " + std::to_string(int(args_.deadline_s)) + " s reached");
        }
        return deadline_flag_;
    }

    double wall() const
    {
        return std::chrono::duration<double>(std::chrono::steady_clock::now() - start_).count();
    }

    // writes the JSON summary; returns the process exit code
    int finish()
    {
        alarm(0);
        std::ostringstream o;
        o << "{\n";
        o << " \"evaluations\": " << evaluations_ << ",\n";
        o << " \"distinct_nontrivial\": " << distinct_.size() << ",\n";
        o << " \"states\": " << states_ << ",\n";
        o << " \"transitions\": " << transitions_ << ",\n";
        o << " \"traces_validated_against_impl\": " << validated_ << ",\n";
        o << " \"exhaustive\": " << (exhaustive_ ? "true" : "false") << ",\n";
        o << " \"wall_s\": " << wall() << ",\n";
        o << " \"violation_count\": " << violation_count_ << ",\n";
        o << " \"counters\": {";
        {
            bool first = true;
            for (auto const& c : counters_)
            {
                o << (first ? "" : ", ") << '"' << json_escape(c.first) << "\": " << c.second;
                first = false;
            }
        }
        o << "},\n \"outcomes\": {";
        {
            bool first = true;
            for (auto const& c : outcomes_)
            {
                o << (first ? "" : ", ") << '"' << json_escape(c.first) << "\": " << c.second.size();
                first = false;
            }
        }
        o << "},\n \"violations_per_key\": {";
        {
            bool first = true;
            for (auto const& c : per_key_)
            {
                o << (first ? "" : ", ") << '"' << json_escape(c.first) << "\": " << c.second;
                first = false;
            }
        }
        o << "},\n \"caps\": [";
        {
            bool first = true;
            for (auto const& c : caps_)
            {
                o << (first ? "" : ", ") << '"' << json_escape(c) << '"';
                first = false;
            }
        }
        o << "],\n \"notes\": [";
        for (std::size_t i = 0; i != notes_.size(); ++i)
        {
            o << (i ? ", " : "") << '"' << json_escape(notes_[i]) << '"';
        }
        o << "],\n \"samples\": [";
        for (std::size_t i = 0; i != samples_.size(); ++i)
        {
            o << (i ? ", " : "") << '"' << json_escape(samples_[i]) << '"';
        }
        o << "],\n \"violations\": [";
        for (std::size_t i = 0; i != violations_.size(); ++i)
        {
            auto const& v = violations_[i];
            o << (i ? ",\n  " : "\n  ") << "{\"key\": \"" << json_escape(v.key) << "\", \"case_id\": \""
              << json_escape(v.case_id) << "\", \"detail\": \"" << json_escape(v.detail) << "\"}";
        }
        o << "]\n}\n";

        if (!args_.out.empty())
        {
            FILE* f = std::fopen(args_.out.c_str(), "w");
            if (!f) { std::perror("open out"); return 2; }
            std::fputs(o.str().c_str(), f);
            std::fclose(f);
        }
        else
        {
            std::fputs(o.str().c_str(), stdout);
        }

        if (args_.replay)
        {
            if (evaluations_ == 0)
            {
                std::fprintf(stderr, "replay: case id not found in the enumeration: %s\n",
                    args_.replay_case.c_str());
                return 2;
            }
            for (auto const& v : violations_)
            {
                std::fprintf(stderr, "replay: reproduced [%s] %s\n", v.key.c_str(), v.detail.c_str());
            }
        }
        return violation_count_ ? 1 : 0;
    }

private:
    args args_;
    unsigned case_timeout_ = 0;
    std::chrono::steady_clock::time_point start_;
    std::uint64_t evaluations_ = 0;
    std::uint64_t states_ = 0, transitions_ = 0, validated_ = 0;
    std::unordered_set<std::uint64_t> distinct_;
    std::map<std::string, std::unordered_set<std::uint64_t>> outcomes_;
    std::map<std::string, std::uint64_t> counters_;
    std::vector<std::string> samples_;
    std::set<std::string> caps_;
    std::vector<std::string> notes_;
    bool exhaustive_ = true;
    bool deadline_flag_ = false;
    std::uint64_t violation_count_ = 0;
    std::map<std::string, std::uint64_t> per_key_;
    std::vector<violation> violations_;
};

}

#endif
