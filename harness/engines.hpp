// Random number engines owned by the harness.  They plug into hep-mc through the engine template
// parameter of the checkpoints; nothing in /repo is changed.
#ifndef VERIF_ENGINES_HPP
#define VERIF_ENGINES_HPP

#include <cmath>
#include <cstdint>
#include <cstdlib>
#include <cstdio>
#include <istream>
#include <limits>
#include <ostream>
#include <random>
#include <vector>

namespace vf
{

inline std::uint64_t splitmix64(std::uint64_t x)
{
    x += 0x9e3779b97f4a7c15ULL;
    x = (x ^ (x >> 30)) * 0xbf58476d1ce4e5b9ULL;
    x = (x ^ (x >> 27)) * 0x94d049bb133111ebULL;
    return x ^ (x >> 31);
}

// The raw output x of a 64-bit engine for which std::generate_canonical<T, digits> returns exactly
// `u` (one draw per canonical number for every T because log2 R = 64 >= digits).  Aborts if `u`
// is not reachable exactly.
template <typename T>
inline std::uint64_t raw_for(T u)
{
    long double const scaled = std::ldexp(static_cast<long double>(u), 64);
    if (!(u >= T()) || !(u < T(1)) || scaled != std::floor(scaled))
    {
        std::fprintf(stderr, "raw_for: %Lg is not an exactly reachable canonical value\n",
            static_cast<long double>(u));
        std::abort();
    }
    auto const x = static_cast<std::uint64_t>(scaled);
    T const back = T(x) / T(18446744073709551616.0L);
    if (back != u)
    {
        std::fprintf(stderr, "raw_for: round trip failed for %Lg\n", static_cast<long double>(u));
        std::abort();
    }
    return x;
}

// the canonical value a 64-bit engine output produces (mirror of libstdc++'s generate_canonical,
// used only to *describe* inputs, never as an oracle for the library)
template <typename T>
inline T canonical_of(std::uint64_t x)
{
    T r = T(x) / T(18446744073709551616.0L);
    if (r >= T(1)) r = std::nextafter(T(1), T(0));
    return r;
}

// Scripted 64-bit engine: a counter based generator whose first outputs are taken from a table
// shared by all copies; beyond the table the output is a fixed hash of the position.  The state is
// the position only, so copies, comparison, discard and text round trips are exact.
class script_engine
{
public:
    using result_type = std::uint64_t;

    static constexpr result_type min() { return 0; }
    static constexpr result_type max() { return std::numeric_limits<result_type>::max(); }

    script_engine() = default;
    explicit script_engine(std::uint64_t pos) : pos_(pos) {}

    result_type operator()()
    {
        ++draws();
        std::uint64_t const p = pos_++;
        auto const& t = table();
        return p < t.size() ? t[p] : splitmix64(p ^ salt());
    }

    void discard(unsigned long long n) { pos_ += n; }

    // "seeding" repositions the stream (the outputs are owned by the harness)
    void seed(std::uint64_t s = 0) { pos_ = 1000 * s; }

    std::uint64_t position() const { return pos_; }

    friend bool operator==(script_engine const& a, script_engine const& b) { return a.pos_ == b.pos_; }
    friend bool operator!=(script_engine const& a, script_engine const& b) { return a.pos_ != b.pos_; }

    template <typename C, typename Tr>
    friend std::basic_ostream<C, Tr>& operator<<(std::basic_ostream<C, Tr>& out, script_engine const& e)
    {
        return out << e.pos_;
    }

    template <typename C, typename Tr>
    friend std::basic_istream<C, Tr>& operator>>(std::basic_istream<C, Tr>& in, script_engine& e)
    {
        return in >> e.pos_;
    }

    static std::vector<std::uint64_t>& table()
    {
        static std::vector<std::uint64_t> t;
        return t;
    }

    static std::uint64_t& salt()
    {
        static std::uint64_t s = 0;
        return s;
    }

    // total number of raw draws by all copies
    static std::uint64_t& draws()
    {
        static std::uint64_t d = 0;
        return d;
    }

private:
    std::uint64_t pos_ = 0;
};

// Fills the script table with a midpoint lattice: point c (0-based), number j is the midpoint of
// cell (c / prod_{k<j} m_k) mod m_j of a lattice with m_j cells in direction j.  prod m_j points
// visit every cell exactly once.
inline std::size_t fill_lattice(std::vector<std::size_t> const& m)
{
    std::size_t n = 1;
    for (auto v : m) n *= v;
    auto& t = script_engine::table();
    t.clear();
    t.reserve(n * m.size());
    for (std::size_t c = 0; c != n; ++c)
    {
        std::size_t rest = c;
        for (std::size_t j = 0; j != m.size(); ++j)
        {
            std::size_t const i = rest % m[j];
            rest /= m[j];
            // (2i+1)/(2m) * 2^64, rounded down
            unsigned __int128 const num = (static_cast<unsigned __int128>(2 * i + 1)) << 63;
            t.push_back(static_cast<std::uint64_t>(num / m[j]));
        }
    }
    return n;
}

// Engine with a run-time range [min, max]: outputs are a hash of the position reduced to the range.
class range_engine
{
public:
    using result_type = std::uint64_t;

    static result_type& lo() { static result_type v = 0; return v; }
    static result_type& hi() { static result_type v = 1; return v; }
    static std::uint64_t& draws() { static std::uint64_t d = 0; return d; }
    // optional scripted outputs (offsets from min), else hash
    static std::vector<std::uint64_t>& table() { static std::vector<std::uint64_t> t; return t; }

    static result_type min() { return lo(); }
    static result_type max() { return hi(); }

    range_engine() = default;

    result_type operator()()
    {
        ++draws();
        std::uint64_t const p = pos_++;
        auto const& t = table();
        std::uint64_t const range = hi() - lo();   // R - 1
        std::uint64_t off;
        if (p < t.size()) off = t[p];
        else off = (range == std::numeric_limits<std::uint64_t>::max()) ? splitmix64(p)
            : splitmix64(p) % (range + 1);
        return lo() + off;
    }

    void discard(unsigned long long n) { pos_ += n; }

    friend bool operator==(range_engine const& a, range_engine const& b) { return a.pos_ == b.pos_; }

    template <typename C, typename Tr>
    friend std::basic_ostream<C, Tr>& operator<<(std::basic_ostream<C, Tr>& out, range_engine const& e)
    {
        return out << e.pos_;
    }

    template <typename C, typename Tr>
    friend std::basic_istream<C, Tr>& operator>>(std::basic_istream<C, Tr>& in, range_engine& e)
    {
        return in >> e.pos_;
    }

private:
    std::uint64_t pos_ = 0;
};

// Standard engine with a draw counter shared by all copies.
template <typename E>
class counting : public E
{
public:
    using result_type = typename E::result_type;

    counting() = default;
    explicit counting(E const& e) : E(e) {}

    result_type operator()()
    {
        ++draws();
        return E::operator()();
    }

    static std::uint64_t& draws() { static std::uint64_t d = 0; return d; }
};

template <typename E> inline char const* engine_name();
template <> inline char const* engine_name<std::minstd_rand0>() { return "minstd_rand0"; }
template <> inline char const* engine_name<std::minstd_rand>() { return "minstd_rand"; }
template <> inline char const* engine_name<std::mt19937>() { return "mt19937"; }
template <> inline char const* engine_name<std::mt19937_64>() { return "mt19937_64"; }
template <> inline char const* engine_name<std::ranlux24_base>() { return "ranlux24_base"; }
template <> inline char const* engine_name<std::ranlux48_base>() { return "ranlux48_base"; }
template <> inline char const* engine_name<std::ranlux24>() { return "ranlux24"; }
template <> inline char const* engine_name<std::ranlux48>() { return "ranlux48"; }
template <> inline char const* engine_name<std::knuth_b>() { return "knuth_b"; }
template <> inline char const* engine_name<script_engine>() { return "script"; }

}

#endif
