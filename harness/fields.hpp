// Canonical, field-by-field description of results and checkpoints through their public accessors
// (hex floats, one labelled line per field).  Used for differential oracles: two runs that must be
// identical "counters aside" are compared on these descriptions with the named counters masked.
#ifndef VERIF_FIELDS_HPP
#define VERIF_FIELDS_HPP

#include "common.hpp"

#include "hep/mc.hpp"

#include <sstream>
#include <string>

namespace vf
{

struct field_mask
{
    bool non_zero_calls = false;      // of the integrated result
    bool finite_calls = false;
    bool bin_counters = false;        // non_zero_calls / finite_calls of distribution bins
};

template <typename T>
inline void put(std::ostream& o, char const* label, T v) { o << label << '=' << hexf(v) << '\n'; }

template <typename T>
inline void describe_mc(std::ostream& o, hep::mc_result<T> const& r, bool mask_nz, bool mask_fin)
{
    o << "calls=" << r.calls() << '\n';
    if (!mask_nz) o << "non_zero_calls=" << r.non_zero_calls() << '\n';
    if (!mask_fin) o << "finite_calls=" << r.finite_calls() << '\n';
    put(o, "sum", r.sum());
    put(o, "sum_of_squares", r.sum_of_squares());
}

template <typename T>
inline void describe_plain(std::ostream& o, hep::plain_result<T> const& r, field_mask const& m)
{
    describe_mc<T>(o, r, m.non_zero_calls, m.finite_calls);
    o << "distributions=" << r.distributions().size() << '\n';
    for (std::size_t d = 0; d != r.distributions().size(); ++d)
    {
        auto const& p = r.distributions()[d].parameters();
        o << "dist" << d << ".name=" << p.name() << '\n' << "dist" << d << ".bins=" << p.bins_x() << 'x' << p.bins_y() << '\n';
        put(o, "x_min", p.x_min()); put(o, "bin_size_x", p.bin_size_x()); put(o, "y_min", p.y_min()); put(o, "bin_size_y", p.bin_size_y());
        for (std::size_t b = 0; b != r.distributions()[d].results().size(); ++b)
        {
            o << "dist" << d << ".bin" << b << ":\n";
            describe_mc<T>(o, r.distributions()[d].results()[b], m.bin_counters, m.bin_counters);
        }
    }
}

template <typename T>
inline void describe_pdf(std::ostream& o, hep::vegas_pdf<T> const& p)
{
    o << "pdf.bins=" << p.bins() << " pdf.dimensions=" << p.dimensions() << '\n';
    for (std::size_t d = 0; d != p.dimensions(); ++d)
        for (std::size_t i = 0; i <= p.bins(); ++i) put(o, "x", p.bin_left(d, i));
}

template <typename T>
inline void describe_result(std::ostream& o, hep::plain_result<T> const& r, field_mask const& m) { describe_plain<T>(o, r, m); }

template <typename T>
inline void describe_result(std::ostream& o, hep::vegas_result<T> const& r, field_mask const& m)
{
    describe_plain<T>(o, r, m);
    describe_pdf<T>(o, r.pdf());
    for (T v : r.adjustment_data()) put(o, "adjustment", v);
}

template <typename T>
inline void describe_result(std::ostream& o, hep::multi_channel_result<T> const& r, field_mask const& m)
{
    describe_plain<T>(o, r, m);
    for (std::size_t i = 0; i != r.channel_weights().size(); ++i) { put(o, "channel_weight", r.channel_weights()[i]); put(o, "adjustment", r.adjustment_data()[i]); }
}

template <typename T, typename C> inline void describe_extra(std::ostream&, hep::chkpt<hep::plain_result<T>> const&, C const&) {}
template <typename T, typename C> inline void describe_extra(std::ostream& o, hep::vegas_chkpt<T> const&, C const& c)
{
    put(o, "alpha", c.alpha());
    o << "next ";
    describe_pdf<T>(o, c.pdf());
}
template <typename T, typename C> inline void describe_extra(std::ostream& o, hep::multi_channel_chkpt<T> const&, C const& c)
{
    put(o, "beta", c.beta());
    put(o, "min_weight", c.min_weight());
    for (T v : c.channel_weights()) put(o, "next_weight", v);
}

// full description of a checkpoint with generator
template <typename C>
inline std::string describe(C const& c, field_mask const& m = field_mask())
{
    std::ostringstream o;
    o << "results=" << c.results().size() << '\n';
    for (std::size_t i = 0; i != c.results().size(); ++i)
    {
        o << "result " << i << ":\n";
        describe_result(o, c.results()[i], m);
    }
    describe_extra(o, c, c);
    o << "generator=" << c.generator() << '\n';
    return o.str();
}

// first line in which two descriptions differ
inline std::string first_difference(std::string const& a, std::string const& b)
{
    std::istringstream x(a), y(b);
    std::string la, lb, section;
    int line = 0;
    while (true)
    {
        bool const ha = static_cast<bool>(std::getline(x, la)), hb = static_cast<bool>(std::getline(y, lb));
        ++line;
        if (!ha && !hb) return "";
        if (ha && !la.empty() && la.back() == ':') section = la;
        if (!ha || !hb || la != lb)
            return "line " + std::to_string(line) + " (" + section + ") '" + (ha ? la : "<end>") + "' vs '" + (hb ? lb : "<end>") + "'";
    }
}

}

#endif
