// File system interposition for the crash-point enumerator ("engine E3").
// The check binary defines fopen/fopen64/open/open64/openat/creat, write/writev/pwrite, fclose/close,
// rename/renameat, unlink/remove, truncate/ftruncate and fsync/fdatasync itself; the dynamic linker
// resolves libstdc++'s calls to these definitions, which log every operation that touches the scratch
// directory and forward to the real functions (dlsym RTLD_NEXT).  A kill can be injected at any
// operation (and after any byte prefix of a write): the process then really _exit()s there.
#ifndef VERIF_FSLOG_HPP
#define VERIF_FSLOG_HPP

#include <cerrno>
#include <cstdarg>
#include <cstdio>
#include <cstring>
#include <dlfcn.h>
#include <fcntl.h>
#include <map>
#include <string>
#include <sys/stat.h>
#include <sys/types.h>
#include <sys/uio.h>
#include <unistd.h>
#include <vector>

namespace vf
{

enum fs_kind { fs_open, fs_write, fs_close, fs_rename, fs_unlink, fs_truncate, fs_sync };

struct fs_op
{
    fs_kind kind;
    std::string path, path2;    // path2: rename target
    bool trunc = false;
    std::string data;           // write
    long offset = -1;           // write: position in the file (-1: at the end)
    long length = 0;            // truncate
    bool failed = false;        // the call returned an error and changed nothing (it still is a point at which the process can be killed)
};

struct fs_state
{
    bool active = false;
    std::string dir;                      // only paths below this directory are logged
    std::vector<fs_op> log;
    std::map<int, std::string> fds;       // tracked descriptors
    std::map<int, bool> append;           // descriptor opened in append mode
    std::map<int, std::string> dirfds;    // descriptors of directories (opened to be synced)
    long kill_at = -1;                    // operation index at which the process is killed
    long kill_bytes = 0;                  // for a write: bytes that reach the file before the kill
    bool offset_mismatch = false;
    long fail_rename = -1;                // the n-th rename (0-based) fails with ENAMETOOLONG and does nothing
    long renames_seen = 0;
};

inline fs_state& fs() { static fs_state s; return s; }

inline bool fs_tracked(char const* path)
{
    auto& s = fs();
    return s.active && path && std::strncmp(path, s.dir.c_str(), s.dir.size()) == 0;
}

template <typename F>
inline F fs_real(char const* name)
{
    return reinterpret_cast<F>(dlsym(RTLD_NEXT, name));
}

// called before an operation is performed; kills the process if this is the chosen crash point
// (writes handle their byte prefix themselves)
inline void fs_before(bool is_write)
{
    auto& s = fs();
    if (s.kill_at >= 0 && static_cast<long>(s.log.size()) == s.kill_at && !is_write) _exit(0);
}

// the directory state implied by a prefix of the log (+ `bytes` of operation `upto` if it is a write)
inline std::map<std::string, std::string> fs_replay(std::map<std::string, std::string> state, std::vector<fs_op> const& log,
    std::size_t upto, std::size_t bytes)
{
    for (std::size_t i = 0; i <= upto && i < log.size(); ++i)
    {
        auto const& op = log[i];
        bool const partial = i == upto;
        if (partial && (op.kind != fs_write || bytes == 0)) break;
        if (op.failed) continue;
        switch (op.kind)
        {
        case fs_open: if (op.trunc || !state.count(op.path)) state[op.path] = ""; break;
        case fs_write:
        {
            // the bytes land at the position the descriptor had (a descriptor kept open across a seek or a rename
            // overwrites in place), or at the end of the file
            std::string const d = partial ? op.data.substr(0, bytes) : op.data;
            std::string& f = state[op.path];
            std::size_t const at = op.offset < 0 ? f.size() : static_cast<std::size_t>(op.offset);
            if (f.size() < at + d.size()) f.resize(at + d.size(), '\0');
            f.replace(at, d.size(), d);
            break;
        }
        case fs_rename: if (op.path != op.path2) { state[op.path2] = state[op.path]; state.erase(op.path); } break;   // renaming a file onto itself does nothing
        case fs_unlink: state.erase(op.path); break;
        case fs_truncate: state[op.path].resize(op.length); break;
        default: break;
        }
    }
    return state;
}

}

// ---- interposed functions (C linkage, global scope) ------------------------------------------------

extern "C"
{

inline FILE* vf_fopen_common(char const* name, char const* path, char const* mode)
{
    auto real = vf::fs_real<FILE* (*)(char const*, char const*)>(name);
    if (!vf::fs_tracked(path)) return real(path, mode);
    vf::fs_before(false);
    FILE* f = real(path, mode);
    if (f)
    {
        vf::fs_op op; op.kind = vf::fs_open; op.path = path; op.trunc = std::strchr(mode, 'w') != nullptr;
        vf::fs().log.push_back(op);
        vf::fs().fds[fileno(f)] = path;
        vf::fs().append[fileno(f)] = std::strchr(mode, 'a') != nullptr;
    }
    else { vf::fs_op op; op.kind = vf::fs_open; op.path = path; op.failed = true; vf::fs().log.push_back(op); }
    return f;
}

int fclose(FILE* f)
{
    auto real = vf::fs_real<int (*)(FILE*)>("fclose");
    auto& s = vf::fs();
    int const fd = f ? fileno(f) : -1;
    auto it = s.fds.find(fd);
    if (!s.active || it == s.fds.end()) return real(f);
    vf::fs_before(false);
    vf::fs_op op; op.kind = vf::fs_close; op.path = it->second;
    s.fds.erase(it);
    int const rc = real(f);
    s.log.push_back(op);
    return rc;
}

inline int vf_open_common(char const* name, char const* path, int flags, mode_t mode)
{
    auto real = vf::fs_real<int (*)(char const*, int, ...)>(name);
    if (!vf::fs_tracked(path)) return real(path, flags, mode);
    {
        // a directory opened for fsync is no file of the model: the descriptor is tracked (so that the sync is a
        // logged kill point) but the open creates nothing
        struct stat st;
        if ((flags & O_DIRECTORY) || (::stat(path, &st) == 0 && S_ISDIR(st.st_mode)))
        {
            vf::fs_before(false);
            int const dfd = real(path, flags, mode);
            vf::fs_op op; op.kind = vf::fs_open; op.path = path; op.failed = true; vf::fs().log.push_back(op);   // no effect on the modelled files
            if (dfd >= 0) vf::fs().dirfds[dfd] = path;
            return dfd;
        }
    }
    vf::fs_before(false);
    int const fd = real(path, flags, mode);
    if (fd >= 0)
    {
        vf::fs_op op; op.kind = vf::fs_open; op.path = path; op.trunc = (flags & O_TRUNC) != 0;
        vf::fs().log.push_back(op);
        vf::fs().fds[fd] = path;
        vf::fs().append[fd] = (flags & O_APPEND) != 0;
    }
    else { vf::fs_op op; op.kind = vf::fs_open; op.path = path; op.failed = true; vf::fs().log.push_back(op); }
    return fd;
}

int open(char const* path, int flags, ...)
{
    mode_t mode = 0;
    if (flags & (O_CREAT | O_TMPFILE)) { va_list ap; va_start(ap, flags); mode = va_arg(ap, mode_t); va_end(ap); }
    return vf_open_common("open", path, flags, mode);
}

int open64(char const* path, int flags, ...)
{
    mode_t mode = 0;
    if (flags & (O_CREAT | O_TMPFILE)) { va_list ap; va_start(ap, flags); mode = va_arg(ap, mode_t); va_end(ap); }
    return vf_open_common("open64", path, flags, mode);
}

int openat(int dirfd, char const* path, int flags, ...)
{
    mode_t mode = 0;
    if (flags & (O_CREAT | O_TMPFILE)) { va_list ap; va_start(ap, flags); mode = va_arg(ap, mode_t); va_end(ap); }
    if (dirfd == AT_FDCWD || (path && path[0] == '/')) return vf_open_common("open", path, flags, mode);
    if (vf::fs().active && vf::fs().dirfds.count(dirfd)) vf::fs().offset_mismatch = true;   // relative to a tracked directory: not modelled
    return vf::fs_real<int (*)(int, char const*, int, ...)>("openat")(dirfd, path, flags, mode);
}

int creat(char const* path, mode_t mode) { return vf_open_common("open", path, O_CREAT | O_WRONLY | O_TRUNC, mode); }

int close(int fd)
{
    auto real = vf::fs_real<int (*)(int)>("close");
    auto& s = vf::fs();
    if (s.active && s.dirfds.count(fd))
    {
        vf::fs_before(false);
        vf::fs_op op; op.kind = vf::fs_close; op.path = s.dirfds[fd]; op.failed = true;
        s.dirfds.erase(fd);
        int const rc = real(fd);
        s.log.push_back(op);
        return rc;
    }
    auto it = s.fds.find(fd);
    if (!s.active || it == s.fds.end()) return real(fd);
    vf::fs_before(false);
    vf::fs_op op; op.kind = vf::fs_close; op.path = it->second;
    s.fds.erase(it);
    int const rc = real(fd);
    s.log.push_back(op);
    return rc;
}

inline ssize_t vf_write_common(int fd, char const* data, size_t n)
{
    auto real = vf::fs_real<ssize_t (*)(int, void const*, size_t)>("write");
    auto& s = vf::fs();
    auto it = s.fds.find(fd);
    if (!s.active || it == s.fds.end()) return real(fd, data, n);
    if (s.kill_at >= 0 && static_cast<long>(s.log.size()) == s.kill_at)
    {
        size_t const b = static_cast<size_t>(s.kill_bytes) < n ? static_cast<size_t>(s.kill_bytes) : n;
        if (b) (void)!real(fd, data, b);
        _exit(0);
    }
    vf::fs_op op; op.kind = vf::fs_write; op.path = it->second; op.data.assign(data, n);
    // where the bytes go: the descriptor's position (lseek is not interposed, the position is simply read here)
    op.offset = s.append[fd] ? -1 : static_cast<long>(::lseek(fd, 0, SEEK_CUR));
    ssize_t const rc = real(fd, data, n);
    if (rc != static_cast<ssize_t>(n)) s.offset_mismatch = true;   // short writes are not expected on a regular file
    s.log.push_back(op);
    return rc;
}

ssize_t write(int fd, void const* data, size_t n) { return vf_write_common(fd, static_cast<char const*>(data), n); }

ssize_t writev(int fd, struct iovec const* iov, int cnt)
{
    auto& s = vf::fs();
    if (!s.active || s.fds.find(fd) == s.fds.end()) return vf::fs_real<ssize_t (*)(int, struct iovec const*, int)>("writev")(fd, iov, cnt);
    std::string all;
    for (int i = 0; i != cnt; ++i) all.append(static_cast<char const*>(iov[i].iov_base), iov[i].iov_len);
    return vf_write_common(fd, all.data(), all.size());
}

ssize_t pwrite(int fd, void const* data, size_t n, off_t off)
{
    auto& s = vf::fs();
    auto real = vf::fs_real<ssize_t (*)(int, void const*, size_t, off_t)>("pwrite");
    auto it = s.fds.find(fd);
    if (!s.active || it == s.fds.end()) return real(fd, data, n, off);
    if (s.kill_at >= 0 && static_cast<long>(s.log.size()) == s.kill_at)
    {
        size_t const b = static_cast<size_t>(s.kill_bytes) < n ? static_cast<size_t>(s.kill_bytes) : n;
        if (b) (void)!real(fd, data, b, off);
        _exit(0);
    }
    vf::fs_op op; op.kind = vf::fs_write; op.path = it->second; op.data.assign(static_cast<char const*>(data), n); op.offset = static_cast<long>(off);
    ssize_t const rc = real(fd, data, n, off);
    if (rc != static_cast<ssize_t>(n)) s.offset_mismatch = true;
    s.log.push_back(op);
    return rc;
}

int rename(char const* a, char const* b)
{
    auto real = vf::fs_real<int (*)(char const*, char const*)>("rename");
    if (!vf::fs_tracked(a) && !vf::fs_tracked(b)) return real(a, b);
    vf::fs_before(false);
    vf::fs_op op; op.kind = vf::fs_rename; op.path = a; op.path2 = b;
    if (vf::fs().renames_seen++ == vf::fs().fail_rename) { op.failed = true; vf::fs().log.push_back(op); errno = ENAMETOOLONG; return -1; }   // injected environment fault
    int const rc = real(a, b);
    int const err = errno;
    op.failed = rc != 0;
    vf::fs().log.push_back(op);
    // descriptors that are still open on the renamed file now write to the new name
    if (rc == 0) for (auto& fd : vf::fs().fds) if (fd.second == a) fd.second = b;
    errno = err;
    return rc;
}

int renameat(int fa, char const* a, int fb, char const* b)
{
    if (fa == AT_FDCWD && fb == AT_FDCWD) return rename(a, b);
    if (vf::fs().active && (vf::fs().dirfds.count(fa) || vf::fs().dirfds.count(fb))) vf::fs().offset_mismatch = true;   // not modelled
    return vf::fs_real<int (*)(int, char const*, int, char const*)>("renameat")(fa, a, fb, b);
}

int unlink(char const* a)
{
    auto real = vf::fs_real<int (*)(char const*)>("unlink");
    if (!vf::fs_tracked(a)) return real(a);
    vf::fs_before(false);
    int const rc = real(a);
    int const err = errno;
    { vf::fs_op op; op.kind = vf::fs_unlink; op.path = a; op.failed = rc != 0; vf::fs().log.push_back(op); }
    errno = err;
    return rc;
}

int remove(char const* a)
{
    auto real = vf::fs_real<int (*)(char const*)>("remove");
    if (!vf::fs_tracked(a)) return real(a);
    vf::fs_before(false);
    int const rc = real(a);
    int const err = errno;
    { vf::fs_op op; op.kind = vf::fs_unlink; op.path = a; op.failed = rc != 0; vf::fs().log.push_back(op); }
    errno = err;
    return rc;
}

int ftruncate(int fd, off_t len)
{
    auto real = vf::fs_real<int (*)(int, off_t)>("ftruncate");
    auto& s = vf::fs();
    auto it = s.fds.find(fd);
    if (!s.active || it == s.fds.end()) return real(fd, len);
    vf::fs_before(false);
    int const rc = real(fd, len);
    { vf::fs_op op; op.kind = vf::fs_truncate; op.path = it->second; op.length = len; op.failed = rc != 0; s.log.push_back(op); }
    return rc;
}

int truncate(char const* a, off_t len)
{
    auto real = vf::fs_real<int (*)(char const*, off_t)>("truncate");
    if (!vf::fs_tracked(a)) return real(a, len);
    vf::fs_before(false);
    int const rc = real(a, len);
    { vf::fs_op op; op.kind = vf::fs_truncate; op.path = a; op.length = len; op.failed = rc != 0; vf::fs().log.push_back(op); }
    return rc;
}

// The process id is an input the harness owns while a scenario runs: code that builds file names from it
// must behave identically in the logged run and in the killed children.
pid_t getpid(void)
{
    if (vf::fs().active) return 4242;
    return vf::fs_real<pid_t (*)(void)>("getpid")();
}

int fsync(int fd)
{
    auto real = vf::fs_real<int (*)(int)>("fsync");
    auto& s = vf::fs();
    if (s.active && s.dirfds.count(fd))
    {
        vf::fs_before(false);
        int const rc = real(fd);
        vf::fs_op op; op.kind = vf::fs_sync; op.path = s.dirfds[fd]; s.log.push_back(op);
        return rc;
    }
    auto it = s.fds.find(fd);
    if (!s.active || it == s.fds.end()) return real(fd);
    vf::fs_before(false);
    int const rc = real(fd);
    vf::fs_op op; op.kind = vf::fs_sync; op.path = it->second; s.log.push_back(op);
    return rc;
}

int fdatasync(int fd) { return fsync(fd); }

// C stdio used directly by the code under test: glibc's FILE writes through internal system call wrappers that
// cannot be interposed, so such a stream is given custom I/O functions (fopencookie) that go through the logged
// write/close above; glibc's buffering stays as it is.  libstdc++'s file streams call fopen only to get a
// descriptor (they write with write/writev themselves) and therefore keep the real FILE.
struct vf_cookie { int fd; };
inline ssize_t vf_ck_read(void* c, char* buf, size_t n) { return ::read(static_cast<vf_cookie*>(c)->fd, buf, n); }
inline ssize_t vf_ck_write(void* c, char const* buf, size_t n) { ssize_t const rc = write(static_cast<vf_cookie*>(c)->fd, buf, n); return rc < 0 ? 0 : rc; }
inline int vf_ck_seek(void* c, off64_t* off, int whence)
{
    off64_t const r = ::lseek64(static_cast<vf_cookie*>(c)->fd, *off, whence);
    if (r < 0) return -1;
    *off = r;
    return 0;
}
inline int vf_ck_close(void* c) { int const rc = close(static_cast<vf_cookie*>(c)->fd); delete static_cast<vf_cookie*>(c); return rc; }

inline bool vf_called_from_libstdcxx(void* return_address)
{
    Dl_info info;
    return dladdr(return_address, &info) != 0 && info.dli_fname && std::strstr(info.dli_fname, "libstdc++") != nullptr;
}

inline FILE* vf_fopen_cookie(char const* path, char const* mode)
{
    int flags = std::strchr(mode, '+') ? O_RDWR : (mode[0] == 'r' ? O_RDONLY : O_WRONLY);
    if (mode[0] == 'w') flags |= O_CREAT | O_TRUNC;
    if (mode[0] == 'a') flags |= O_CREAT | O_APPEND;
    int const fd = vf_open_common("open", path, flags, 0666);
    if (fd < 0) return nullptr;
    cookie_io_functions_t io;
    io.read = vf_ck_read; io.write = vf_ck_write; io.seek = vf_ck_seek; io.close = vf_ck_close;
    FILE* const f = fopencookie(new vf_cookie{fd}, mode, io);
    if (!f) close(fd);
    return f;
}

FILE* fopen(char const* path, char const* mode)
{
    if (vf::fs_tracked(path) && !vf_called_from_libstdcxx(__builtin_return_address(0))) return vf_fopen_cookie(path, mode);
    return vf_fopen_common("fopen", path, mode);
}
FILE* fopen64(char const* path, char const* mode)
{
    if (vf::fs_tracked(path) && !vf_called_from_libstdcxx(__builtin_return_address(0))) return vf_fopen_cookie(path, mode);
    return vf_fopen_common("fopen64", path, mode);
}


}

#endif
