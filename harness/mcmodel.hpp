// Channel maps and integrands owned by the harness (multi-channel side).
#ifndef VERIF_MCMODEL_HPP
#define VERIF_MCMODEL_HPP

#include "hep/mc.hpp"

#include <cstddef>
#include <vector>

namespace vf
{

// C channels over [0,1]^d.  Channel c uses, in every dimension, the piecewise-linear CDF with one
// break point t_c: u in [0,1/2) -> [0,t_c), u in [1/2,1) -> [t_c,1).  Its density is
// p_c(y) = prod_k (y_k < t_c ? 1/(2 t_c) : 1/(2 (1 - t_c))), which is normalised.  The map returns
// the common jacobian factor J(y) selected by `jac` (0: 1, 1: 2, 2: 1/4, 3: 1 + y_0), so that the
// integrator estimates the integral of f * J.  Densities of channels listed in `poison` are
// reported as 1e30 (they must be multiplied by a zero weight).
template <typename T>
struct pl_map
{
    std::vector<T> split;          // t_c per channel
    std::size_t dims = 1;
    int jac = 0;
    std::vector<bool> poison;      // per channel: report a sentinel density
    T cut_lo = T(), cut_hi = T();  // every density vanishes for cut_lo <= y_0 < cut_hi (the weight is 1/0 there)

    T density(std::size_t c, std::vector<T> const& y) const
    {
        if (y[0] >= cut_lo && y[0] < cut_hi) return T();
        T p = T(1);
        for (std::size_t k = 0; k != dims; ++k)
        {
            p *= (y[k] < split[c]) ? T(1) / (T(2) * split[c]) : T(1) / (T(2) * (T(1) - split[c]));
        }
        return p;
    }

    T jacobian(std::vector<T> const& y) const
    {
        switch (jac)
        {
        case 1: return T(2);
        case 2: return T(0.25);
        case 3: return T(1) + y[0];
        default: return T(1);
        }
    }

    T operator()(
        std::size_t channel,
        std::vector<T> const& random_numbers,
        std::vector<T>& coordinates,
        std::vector<std::size_t> const& /*enabled*/,
        std::vector<T>& densities,
        hep::multi_channel_map action
    ) const
    {
        if (action == hep::multi_channel_map::calculate_coordinates)
        {
            T const t = split[channel];
            for (std::size_t k = 0; k != dims; ++k)
            {
                T const u = random_numbers[k];
                coordinates[k] = (u < T(0.5)) ? T(2) * u * t : t + (T(2) * u - T(1)) * (T(1) - t);
            }
            return T(1);
        }

        for (std::size_t c = 0; c != split.size(); ++c)
        {
            densities[c] = (!poison.empty() && poison[c]) ? T(1e30L) : density(c, coordinates);
        }
        return jacobian(coordinates);
    }
};

}

#endif
