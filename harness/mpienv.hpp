// MPI environment model for the harness ("engine E2").
//
// Ranks only interact through MPI_Allreduce and every rank is a deterministic function of its rank
// and of the reduction results it has received so far.  The environment therefore executes ranks
// by *re-execution*: to find what the ranks contribute to collective k, every rank is run from the
// start with the results of collectives 0..k-1 preset; a rank that reaches collective k records its
// contribution and is unwound with an exception.  When all ranks have been unwound at collective k
// the explorer chooses a reduction order (that is the schedule: which contributions are combined
// first), appends the reduced bytes and repeats; when all ranks return the execution is complete.
// A mix of returned and waiting ranks, or ranks waiting with different count/datatype, is the hang
// it would be under a real MPI.
#ifndef VERIF_MPIENV_HPP
#define VERIF_MPIENV_HPP

#include "mpishim/mpi.h"

#include <algorithm>
#include <cstring>
#include <functional>
#include <iostream>
#include <numeric>
#include <set>
#include <sstream>
#include <string>
#include <vector>

namespace vf
{

typedef std::vector<unsigned char> bytes;

struct collective_sig
{
    int count = 0;
    int datatype = 0;
    int op = 0;
    bool operator==(collective_sig const& o) const
    {
        return count == o.count && datatype == o.datatype && op == o.op;
    }
    std::string str() const
    {
        return "count=" + std::to_string(count) + " type=" + std::to_string(datatype) + " op="
            + std::to_string(op);
    }
};

inline std::size_t mpi_type_size(int datatype)
{
    switch (datatype)
    {
    case MPI_UNSIGNED: return sizeof(unsigned);
    case MPI_UNSIGNED_LONG: return sizeof(unsigned long);
    case MPI_UNSIGNED_LONG_LONG: return sizeof(unsigned long long);
    case MPI_FLOAT: return sizeof(float);
    case MPI_DOUBLE: return sizeof(double);
    case MPI_LONG_DOUBLE: return sizeof(long double);
    case MPI_INT: return sizeof(int);
    case MPI_LONG: return sizeof(long);
    }
    return 0;
}

inline bool mpi_type_is_fp(int datatype)
{
    return datatype == MPI_FLOAT || datatype == MPI_DOUBLE || datatype == MPI_LONG_DOUBLE;
}

template <typename T>
inline void add_into(bytes& acc, bytes const& x, int count)
{
    for (int i = 0; i != count; ++i)
    {
        T a, b;
        std::memcpy(&a, &acc[i * sizeof(T)], sizeof(T));
        std::memcpy(&b, &x[i * sizeof(T)], sizeof(T));
        a = a + b;
        std::memcpy(&acc[i * sizeof(T)], &a, sizeof(T));
    }
}

inline void add_bytes(bytes& acc, bytes const& x, collective_sig const& s)
{
    switch (s.datatype)
    {
    case MPI_UNSIGNED: add_into<unsigned>(acc, x, s.count); break;
    case MPI_UNSIGNED_LONG: add_into<unsigned long>(acc, x, s.count); break;
    case MPI_UNSIGNED_LONG_LONG: add_into<unsigned long long>(acc, x, s.count); break;
    case MPI_FLOAT: add_into<float>(acc, x, s.count); break;
    case MPI_DOUBLE: add_into<double>(acc, x, s.count); break;
    case MPI_LONG_DOUBLE: add_into<long double>(acc, x, s.count); break;
    case MPI_INT: add_into<int>(acc, x, s.count); break;
    case MPI_LONG: add_into<long>(acc, x, s.count); break;
    }
}

// a broadcast is recorded as a collective with op = -(root + 2): its "reduction" is the root's contribution whatever the order
inline bool is_bcast(collective_sig const& s) { return s.op <= -2; }
inline int bcast_root(collective_sig const& s) { return -s.op - 2; }

// left fold over the ranks in the given order
inline bytes reduce_fold(std::vector<bytes> const& contrib, collective_sig const& s,
    std::vector<int> const& order)
{
    if (is_bcast(s)) return contrib.at(bcast_root(s));
    bytes acc = contrib[order[0]];
    for (std::size_t i = 1; i < order.size(); ++i) add_bytes(acc, contrib[order[i]], s);
    return acc;
}

// balanced binary tree over rank order (recursive halving)
inline bytes reduce_tree(std::vector<bytes> const& contrib, collective_sig const& s, int lo, int hi)
{
    if (is_bcast(s)) return contrib.at(bcast_root(s));
    if (hi - lo == 1) return contrib[lo];
    int const mid = lo + (hi - lo) / 2;
    bytes a = reduce_tree(contrib, s, lo, mid);
    bytes const b = reduce_tree(contrib, s, mid, hi);
    add_bytes(a, b, s);
    return a;
}

// user callback for the mpi_* integrators that never ends a run
struct never_stop_mpi
{
    template <typename C>
    bool operator()(MPI_Comm, C const&) const { return true; }
};

struct need_collective {};   // unwinds a rank that waits for a result that is not known yet
struct collective_mismatch { std::string what; };

class mpi_env;
inline mpi_env*& current_env() { static mpi_env* e = nullptr; return e; }

class mpi_env
{
public:
    explicit mpi_env(int world) : world_(world) {}

    int world() const { return world_; }

    // When set, the P ranks are the second half of a world of 2P processes: on VF_COMM_GROUP they have ranks
    // 0..P-1 and size P, on MPI_COMM_WORLD ranks P..2P-1 and size 2P.  Code that asks the wrong communicator for
    // its rank or size then sees different numbers.  Collectives are only possible on the group.
    bool subgroup = false;
    int rank_on(MPI_Comm comm) const { return (subgroup && comm == MPI_COMM_WORLD) ? rank_ + world_ : rank_; }
    int size_on(MPI_Comm comm) const { return (subgroup && comm == MPI_COMM_WORLD) ? 2 * world_ : world_; }
    MPI_Comm comm() const { return subgroup ? VF_COMM_GROUP : MPI_COMM_WORLD; }

    struct step
    {
        bool finished = false;       // all ranks returned
        bool error = false;          // hang / mismatch / exception
        std::string what;
        collective_sig sig;          // of the collective the ranks wait in
        std::vector<bytes> contrib;  // per rank
    };

    struct outcome { bool ok; std::string what; };

    // Executes every rank with the reduction results `results` preset.
    template <typename F>
    step advance(std::vector<bytes> const& results, F&& rank_fn)
    {
        step st;
        results_ = &results;
        st.contrib.assign(world_, bytes());
        std::vector<int> state(world_, 0);   // 1 returned, 2 waiting
        std::vector<collective_sig> sigs(world_);
        rank_output.assign(world_, std::string());
        mpi_env* const saved = current_env();
        current_env() = this;
        for (int r = 0; r != world_; ++r)
        {
            rank_ = r;
            cursor_ = 0;
            log_.clear();
            std::ostringstream captured;
            std::streambuf* const old = std::cout.rdbuf(captured.rdbuf());
            try
            {
                rank_fn(r);
                state[r] = 1;
            }
            catch (need_collective const&)
            {
                state[r] = 2;
                sigs[r] = pending_sig_;
                st.contrib[r] = pending_;
            }
            catch (collective_mismatch const& m)
            {
                st.error = true;
                st.what = "rank " + std::to_string(r) + ": " + m.what;
            }
            catch (std::exception const& e)
            {
                st.error = true;
                st.what = "rank " + std::to_string(r) + " threw: " + e.what();
            }
            std::cout.rdbuf(old);
            rank_output[r] = captured.str();
            if (r == 0) log0_ = log_;
            else if (!st.error && state[r] == 1 && state[0] == 1 && !(log_ == log0_))
            {
                st.error = true;
                st.what = "rank " + std::to_string(r) + " executed a different sequence of collectives than rank 0";
            }
            if (st.error) break;
        }
        current_env() = saved;
        if (st.error) return st;
        int returned = 0, waiting = 0;
        for (int r = 0; r != world_; ++r) { returned += state[r] == 1; waiting += state[r] == 2; }
        if (waiting == 0) { st.finished = true; collectives_ = results.size(); return st; }
        if (returned != 0)
        {
            int a = 0, b = 0;
            for (int r = 0; r != world_; ++r) { if (state[r] == 1) a = r; else b = r; }
            st.error = true;
            st.what = "hang: rank " + std::to_string(a) + " returned after " + std::to_string(results.size())
                + " collectives while rank " + std::to_string(b) + " waits in collective "
                + std::to_string(results.size()) + " (" + sigs[b].str() + ")";
            return st;
        }
        for (int r = 1; r != world_; ++r)
        {
            if (!(sigs[r] == sigs[0]))
            {
                st.error = true;
                st.what = "hang: in collective " + std::to_string(results.size()) + " rank 0 has " + sigs[0].str()
                    + " but rank " + std::to_string(r) + " has " + sigs[r].str();
                return st;
            }
        }
        st.sig = sigs[0];
        return st;
    }

    // Complete execution with one fixed order for every collective (ascending left fold).
    template <typename F>
    outcome run(F&& rank_fn)
    {
        std::vector<bytes> results;
        std::vector<int> order(world_);
        std::iota(order.begin(), order.end(), 0);
        for (int guard = 0; guard != 100000; ++guard)
        {
            step st = advance(results, rank_fn);
            if (st.error) return {false, st.what};
            if (st.finished) { final_results = results; return {true, ""}; }
            results.push_back(reduce_fold(st.contrib, st.sig, order));
        }
        return {false, "more than 100000 collectives"};
    }

    // --- called by the shim functions ---
    int rank() const { return rank_; }

    int allreduce(void const* sendbuf, void* recvbuf, int count, int datatype, int op, MPI_Comm on = 0)
    {
        if (subgroup && on == MPI_COMM_WORLD)
            throw collective_mismatch{"collective on MPI_COMM_WORLD although the integrator was given a sub-communicator (the other half of the world never joins it: hang)"};
        collective_sig sig;
        sig.count = count; sig.datatype = datatype; sig.op = op;
        std::size_t const n = std::size_t(count) * mpi_type_size(datatype);
        if (mpi_type_size(datatype) == 0 || op != MPI_SUM)
            throw collective_mismatch{"unsupported datatype/op in MPI_Allreduce: " + sig.str()};
        log_.push_back(sig);
        if (cursor_ < results_->size())
        {
            bytes const& res = (*results_)[cursor_];
            if (res.size() != n || (n == 1 && res[0] == 0xBA && false))
                throw collective_mismatch{"collective " + std::to_string(cursor_) + " has " + sig.str()
                    + " (" + std::to_string(n) + " bytes) but the other ranks reduced " + std::to_string(res.size())
                    + " bytes"};
            std::memcpy(recvbuf, res.data(), n);
            ++cursor_;
            return 0;
        }
        void const* src = (sendbuf == MPI_IN_PLACE) ? recvbuf : sendbuf;
        pending_.assign(static_cast<unsigned char const*>(src), static_cast<unsigned char const*>(src) + n);
        pending_sig_ = sig;
        throw need_collective{};
    }

    // A broadcast: every rank of the communicator must reach it at the same place with the same count, type and root; all
    // of them (the root too) leave with the root's bytes.
    int bcast(void* buffer, int count, int datatype, int root, MPI_Comm on = 0)
    {
        if (subgroup && on == MPI_COMM_WORLD)
            throw collective_mismatch{"broadcast on MPI_COMM_WORLD although the integrator was given a sub-communicator (hang)"};
        collective_sig sig; sig.count = count; sig.datatype = datatype; sig.op = -(root + 2);
        std::size_t const n = std::size_t(count) * mpi_type_size(datatype);
        if (mpi_type_size(datatype) == 0 || root < 0 || root >= world_)
            throw collective_mismatch{"unsupported datatype/root in MPI_Bcast: " + sig.str()};
        log_.push_back(sig);
        if (cursor_ < results_->size())
        {
            bytes const& res = (*results_)[cursor_];
            if (res.size() != n)
                throw collective_mismatch{"collective " + std::to_string(cursor_) + " is a broadcast of " + std::to_string(n) + " bytes here but " + std::to_string(res.size()) + " bytes on the other ranks"};
            std::memcpy(buffer, res.data(), n);
            ++cursor_;
            return 0;
        }
        pending_.assign(static_cast<unsigned char const*>(buffer), static_cast<unsigned char const*>(buffer) + n);
        pending_sig_ = sig;
        throw need_collective{};
    }

    // A barrier is a collective of its own kind (datatype -1, one marker byte): every rank of the communicator must reach it
    // at the same place in the sequence of collectives.
    int barrier(MPI_Comm on = 0)
    {
        if (subgroup && on == MPI_COMM_WORLD)
            throw collective_mismatch{"barrier on MPI_COMM_WORLD although the integrator was given a sub-communicator (hang)"};
        collective_sig sig; sig.count = 1; sig.datatype = -1; sig.op = 0;
        log_.push_back(sig);
        if (cursor_ < results_->size())
        {
            bytes const& res = (*results_)[cursor_];
            if (res.size() != 1 || res[0] != 0xBA)
                throw collective_mismatch{"collective " + std::to_string(cursor_) + " is a barrier here but a reduction of " + std::to_string(res.size()) + " bytes on the other ranks"};
            ++cursor_;
            return 0;
        }
        pending_.assign(1, static_cast<unsigned char>(0xBA));
        pending_sig_ = sig;
        throw need_collective{};
    }

    std::vector<std::string> rank_output;     // what each rank printed to std::cout (last execution)
    std::vector<bytes> final_results;         // results of all collectives of the last run()
    std::size_t collectives() const { return collectives_; }
    std::vector<collective_sig> const& collective_log() const { return log0_; }

private:
    int world_;
    int rank_ = 0;
    std::size_t cursor_ = 0;
    std::size_t collectives_ = 0;
    std::vector<bytes> const* results_ = nullptr;
    bytes pending_;
    collective_sig pending_sig_;
    std::vector<collective_sig> log_, log0_;
};

// All distinct results of reducing `contrib` over every left-fold order (P! permutations) and the
// balanced tree.  Returns the distinct byte strings (ascending order first) and the number of
// orders they represent.
inline std::vector<bytes> all_reductions(std::vector<bytes> const& contrib, collective_sig const& s,
    std::size_t& orders, int max_perm_world = 5)
{
    int const p = static_cast<int>(contrib.size());
    std::vector<bytes> distinct;
    auto add = [&](bytes const& b) {
        if (std::find(distinct.begin(), distinct.end(), b) == distinct.end()) distinct.push_back(b);
    };
    std::vector<int> order(p);
    std::iota(order.begin(), order.end(), 0);
    orders = 0;
    if (!mpi_type_is_fp(s.datatype) || p == 1 || is_bcast(s))
    {
        add(reduce_fold(contrib, s, order));
        orders = 1;
        return distinct;
    }
    if (p <= max_perm_world)
    {
        do { add(reduce_fold(contrib, s, order)); ++orders; } while (std::next_permutation(order.begin(), order.end()));
    }
    else
    {
        add(reduce_fold(contrib, s, order)); ++orders;
        std::reverse(order.begin(), order.end());
        add(reduce_fold(contrib, s, order)); ++orders;
    }
    add(reduce_tree(contrib, s, 0, p)); ++orders;
    return distinct;
}

}

// ---- the shim functions --------------------------------------------------------------------------

inline int MPI_Comm_rank(MPI_Comm comm, int* rank)
{
    *rank = vf::current_env() ? vf::current_env()->rank_on(comm) : 0;
    return 0;
}

inline int MPI_Comm_size(MPI_Comm comm, int* size)
{
    *size = vf::current_env() ? vf::current_env()->size_on(comm) : 1;
    return 0;
}

inline int MPI_Allreduce(void const* sendbuf, void* recvbuf, int count, MPI_Datatype datatype, MPI_Op op,
    MPI_Comm comm)
{
    if (!vf::current_env())
    {
        if (sendbuf != MPI_IN_PLACE) std::memcpy(recvbuf, sendbuf, std::size_t(count) * vf::mpi_type_size(datatype));
        return 0;
    }
    return vf::current_env()->allreduce(sendbuf, recvbuf, count, datatype, op, comm);
}

inline int MPI_Bcast(void* buffer, int count, MPI_Datatype datatype, int root, MPI_Comm comm)
{
    if (!vf::current_env()) return 0;
    return vf::current_env()->bcast(buffer, count, datatype, root, comm);
}

inline int MPI_Barrier(MPI_Comm comm)
{
    if (!vf::current_env()) return 0;
    return vf::current_env()->barrier(comm);
}

#endif
