// Minimal MPI surface for running hep-mc's mpi_* integrators inside the harness.  It is found
// before any real <mpi.h> because harness/mpishim is first on the include path of the checks that
// use it.  The functions are defined in harness/mpienv.hpp.
#ifndef VERIF_MPI_SHIM_H
#define VERIF_MPI_SHIM_H

typedef int MPI_Comm;
typedef int MPI_Datatype;
typedef int MPI_Op;

#define MPI_COMM_WORLD 91
#define MPI_COMM_SELF 92
/* harness only: the communicator the integrators are run on when the environment models a sub-group of a larger
   world (its ranks 0..P-1 are world ranks P..2P-1 of a world of 2P processes) */
#define VF_COMM_GROUP 93
#define MPI_IN_PLACE ((void*) 1)
#define MPI_SUCCESS 0

#define MPI_UNSIGNED 1
#define MPI_UNSIGNED_LONG 2
#define MPI_UNSIGNED_LONG_LONG 3
#define MPI_FLOAT 4
#define MPI_DOUBLE 5
#define MPI_LONG_DOUBLE 6
#define MPI_INT 7
#define MPI_LONG 8

#define MPI_SUM 1
#define MPI_MAX 2
#define MPI_MIN 3

int MPI_Comm_rank(MPI_Comm comm, int* rank);
int MPI_Comm_size(MPI_Comm comm, int* size);
int MPI_Allreduce(void const* sendbuf, void* recvbuf, int count, MPI_Datatype datatype, MPI_Op op,
    MPI_Comm comm);
int MPI_Bcast(void* buffer, int count, MPI_Datatype datatype, int root, MPI_Comm comm);
int MPI_Barrier(MPI_Comm comm);

#endif
