#!/bin/bash
# Runs every claimed check of a tier in sequence and prints one line per check (development aid).
tier=${1:-quick}
cd "$(dirname "$0")"
for id in $(python3 -c "import json;print(' '.join(c['property_id'] for c in json.load(open('MANIFEST.json'))['checks']))"); do
    s=$(date +%s.%N)
    out=$(./check $id --tier $tier 2>&1); rc=$?
    e=$(date +%s.%N)
    printf "%s exit=%d %.1fs  %s\n" $id $rc $(echo "$e - $s" | bc) "$(echo "$out" | tail -1 | cut -c1-150)"
done
